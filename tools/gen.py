#!/venv/bin/python
"""tools/gen.py <replay.json> <outdir>: generate the package of a replay case for inspection."""
import json, os, sys, shutil
sys.path.insert(0, os.environ.get("VERIF_REPO", "/repo")); sys.path.insert(1, "/verif")
from vf import e2e
rec = json.load(open(sys.argv[1])); case = rec.get("case", rec)
out = os.path.abspath(sys.argv[2]); shutil.rmtree(out, ignore_errors=True); os.makedirs(out); os.chdir(out)
g = e2e.generate(case, out)
print({k: v for k, v in g.items() if k != "exc"})
if not g["ok"]:
    import traceback; traceback.print_exception(g["exc"])
