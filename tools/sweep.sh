#!/bin/bash
# tools/sweep.sh "<ids>" "<seeds>" : run quick checks at several seeds; print one line per run + any violation lines
cd "$(dirname "$0")/.."
for id in $1; do for s in $2; do
  out=$(VERIF_SEED=$s ./check $id quick 2>&1); rc=$?
  echo "$id seed=$s exit=$rc $(echo "$out" | grep "^$id " | cut -c1-140)"
  echo "$out" | grep -E "clause=|HARNESS" | cut -c1-260 | head -4
done; done
