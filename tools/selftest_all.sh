#!/bin/bash
# run every mutant against its property's quick check; write mutants/RESULTS.tsv
cd "$(dirname "$0")/.."
final=mutants/RESULTS.tsv; out=$final.new; : > $out   # replaced only when the whole run is through
for p in mutants/*.patch; do
  b=$(basename $p .patch); id=$(echo $b | cut -d_ -f1 | tr a-z A-Z)
  log=$(./selftest $id $p 2>&1)
  res=$(echo "$log" | tail -1 | grep -o 'KILLED\|SURVIVED\|PATCH-FAILED')
  if [ "$res" = "SURVIVED" ]; then   # the quick tier is a sample: try two more seeds before calling it a survivor
    for s2 in 2 3; do
      log=$(./selftest $id $p $s2 2>&1)
      if echo "$log" | tail -1 | grep -q KILLED; then res="KILLED(seed $s2; survived seed 1)"; break; fi
    done
  fi
  first=$(echo "$log" | grep "clause=" | head -1 | sed 's/ msg=.*//' | cut -c1-100)
  echo -e "$b\t$id\t$res\t$first" >> $out
done
echo done >> $out
mv $out $final
