#!/venv/bin/python
"""tools/mkcase.py <PROPERTY> <name> <sdl-file> <queries-file> [config-json] : write replays/<PROPERTY>/<name>.json
(an e2e case with one argument-less call per operation x 3 server seeds) from hand-written GraphQL files."""
import json, os, sys
sys.path.insert(0, "/repo"); sys.path.insert(1, "/verif")
from graphql import parse, OperationDefinitionNode, print_ast
pid, name, sdlf, qf = sys.argv[1:5]
cfg = json.loads(sys.argv[5]) if len(sys.argv) > 5 else {}
sdl, queries = open(sdlf).read(), open(qf).read()
ops = []
for d in parse(queries).definitions:
    if isinstance(d, OperationDefinitionNode):
        ops.append({"name": d.name.value, "kind": d.operation.value,
                    "vars": [{"name": v.variable.name.value, "type": print_ast(v.type), "default": None} for v in d.variable_definitions]})
case = {"sdl": sdl, "queries": queries, "config": cfg, "files": {}, "ops": ops,
        "calls": [{"op": o["name"], "args": {}} for o in ops for _ in range(4)],
        "server_seed": 11, "null_p": 0.0, "desc": {"enums": {}, "inputs": {}, "scalars": []}, "features": ["handwritten"]}
os.makedirs(f"/verif/replays/{pid}", exist_ok=True)
path = f"/verif/replays/{pid}/{name}.json"
json.dump({"property": pid, "clause": None, "signature": None, "message": "hand-written reproducer", "seed": 0, "case": case}, open(path, "w"), indent=1)
print(path)
