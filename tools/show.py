#!/venv/bin/python
import json,sys
r=json.load(open(sys.argv[1]))
print("CLAUSE",r["clause"],"SIG",r["signature"]);print("MSG",r["message"][:1500])
c=r["case"]
for k in ("sdl","queries"):
    if k in c: print(f"--- {k}\n{c[k]}")
print("--- config",c.get("config")); print("--- features",c.get("features"))
print("--- calls",json.dumps(c.get("calls"))[:800])
