#!/bin/bash
# tools/seeded_rerun.sh <name>... : re-run single seeded changes (as tools/seeded_all.sh does) and replace their lines in
# seeded/RESULTS.tsv (adds the line when missing)
cd "$(dirname "$0")/.."
out=seeded/RESULTS.tsv
for n in "$@"; do
  d=seeded/$n; id=$(echo $n | cut -d- -f1)
  log=$(./selftest $id $d/patch.diff 1 2>&1)
  res=$(echo "$log" | tail -1 | grep -o 'KILLED\|SURVIVED\|PATCH-FAILED')
  if [ "$res" = "SURVIVED" ]; then
    for s2 in 2 3; do
      log=$(./selftest $id $d/patch.diff $s2 2>&1)
      if echo "$log" | tail -1 | grep -q KILLED; then res="KILLED(seed $s2; survived seed 1)"; break; fi
    done
  fi
  first=$(echo "$log" | grep "clause=" | head -1 | sed 's/ msg=.*//' | cut -c1-100)
  grep -v "^$n	" $out | grep -v "^done$" > $out.tmp
  echo -e "$n\t$id\t$res\t$first" >> $out.tmp
  sort $out.tmp > $out; echo done >> $out; rm -f $out.tmp
  echo "$n $res"
done
