#!/bin/bash
# re-run every independently seeded change (seeded/<name>/patch.diff) against its property's quick check on the CURRENT
# machinery: VERIF_SEED 1, and seeds 2 and 3 only where seed 1 misses; write seeded/RESULTS.tsv
# (name, property, result, first clause).  Patches are diffs against the /repo HEAD of their time: PATCH-FAILED means a
# later fix: commit touched the same lines.
cd "$(dirname "$0")/.."
out=seeded/RESULTS.tsv; : > $out
for d in seeded/*/; do
  n=$(basename $d); id=$(echo $n | cut -d- -f1)
  log=$(./selftest $id $d/patch.diff 1 2>&1)
  res=$(echo "$log" | tail -1 | grep -o 'KILLED\|SURVIVED\|PATCH-FAILED')
  if [ "$res" = "SURVIVED" ]; then
    for s2 in 2 3; do
      log=$(./selftest $id $d/patch.diff $s2 2>&1)
      if echo "$log" | tail -1 | grep -q KILLED; then res="KILLED(seed $s2; survived seed 1)"; break; fi
    done
  fi
  first=$(echo "$log" | grep "clause=" | head -1 | sed 's/ msg=.*//' | cut -c1-100)
  echo -e "$n\t$id\t$res\t$first" >> $out
done
echo done >> $out
