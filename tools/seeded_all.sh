#!/bin/bash
# re-run every independently seeded change (seeded/<name>/patch.diff) against its property's quick check at
# VERIF_SEED 1 and 2; write seeded/RESULTS.tsv (name, property, seed1, seed2, first clause)
cd "$(dirname "$0")/.."
out=seeded/RESULTS.tsv; : > $out
for d in seeded/*/; do
  n=$(basename $d); id=$(echo $n | cut -d- -f1)
  r=""; first=""
  for s in 1 2; do
    log=$(./selftest $id $d/patch.diff $s 2>&1)
    res=$(echo "$log" | tail -1 | grep -o 'KILLED\|SURVIVED\|PATCH-FAILED')
    r="$r\t$res"
    [ -z "$first" ] && first=$(echo "$log" | grep "clause=" | head -1 | sed 's/ msg=.*//' | cut -c1-100)
  done
  echo -e "$n\t$id$r\t$first" >> $out
done
echo done >> $out
