#!/venv/bin/python
"""tools/mkmutant.py <name> <repo-relative-file> <old> <new> [count]: write mutants/<name>.patch replacing
the first (or count-th, 1-based) occurrence of <old> by <new> in /repo's current file."""
import difflib, sys
name, rel, old, new = sys.argv[1:5]
nth = int(sys.argv[5]) if len(sys.argv) > 5 else 1
src = open(f"/repo/{rel}").read()
old = old.encode().decode("unicode_escape"); new = new.encode().decode("unicode_escape")
idx = -1
for _ in range(nth):
    idx = src.find(old, idx + 1)
    if idx < 0:
        sys.exit(f"pattern not found: {old!r}")
dst = src[:idx] + new + src[idx + len(old):]
diff = difflib.unified_diff(src.splitlines(True), dst.splitlines(True), f"a/{rel}", f"b/{rel}")
open(f"/verif/mutants/{name}.patch", "w").write("".join(diff))
print("wrote", name)
