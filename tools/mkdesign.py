#!/venv/bin/python
"""Regenerate the data-driven parts of DESIGN.md section 10 (10.1 repairs, 10.2 open findings, 10.4 mutants,
10.5 seeded changes) from known_findings.json, git log of /repo, mutants/RESULTS.tsv and seeded/*/meta.json.
The hand-written parts live in tools/design_sec10_text.md (10.3) and are pasted verbatim."""
import glob, json, os, subprocess
V = os.path.dirname(os.path.dirname(os.path.abspath(__file__)))
kf = json.load(open(f"{V}/known_findings.json"))["findings"]
log = subprocess.run(["git", "-C", "/repo", "log", "--format=%h|%s", "f8842e4..HEAD"], capture_output=True, text=True).stdout.strip().splitlines()
out = ["", "-" * 93, "", "## 10. What the build round produced", "",
       "### 10.1 Repairs made to `/repo` (one `fix:` commit each, baseline re-run after each: 676/676 stable tests pass, +5)", "",
       "Each defect was first reported by a check (failing input shown against the real code), then repaired with a",
       "minimal unguarded commit, then pinned by a regression replay (`replays/<ID>/fx-*.json`) or by a mutant that",
       "re-introduces it (`mutants/*_regress.patch`, killed by `./selftest`). `known_findings.json` lists them with status",
       "`fixed`; a fixed entry suppresses nothing.", "",
       "| commit | property | what failed |", "|--------|----------|-------------|"]
fx = {k["commit"]: k for k in kf if k["status"] == "fixed"}
for l in reversed(log):
    h, sub = l.split("|", 1)
    k = fx.get(h)
    prop = (k["property"] + (" (+" + ",".join(k["also"]) + ")" if k.get("also") else "")) if k else "?"
    out.append(f"| `{h}` | {prop} | {sub[5:]} |")
out += ["", "### 10.2 Open known findings (genuine defects recorded, not repaired)", "",
        "Not repaired because the repair is a redesign rather than a patch (selection / fragment handling, name collisions,",
        "class-level builder singletons, `assume_valid=True`), because passing baseline tests pin the behaviour",
        "(`extra_headers`), or because the defect is minor. Each has a pinned reproducer run by the property's check on every",
        "run (`KNOWN-FINDING:` line) and generator feature switches (`triggers`) that are off while it is open; the number of",
        "steered draws is in every evidence file. Regions are kept as narrow as the defect: several seeded changes were first",
        "missed only because a region was wider than its defect (10.5).", "",
        "| id | property | triggers | what fails |", "|----|----------|----------|------------|"]
for k in kf:
    if k["status"] == "open":
        out.append(f"| {k['id']} | {k['property']} | `{'`, `'.join(k['triggers'])}` | {k['what']} |")
out += ["", open(f"{V}/tools/design_sec10_text.md").read().rstrip(), ""]
out += ["### 10.4 Sensitivity: hand-written mutants (`mutants/*.patch`, `./selftest <ID> <patch>`, quick tier, seed 1)", "",
        "Each mutant keeps the 676 baseline tests green by construction of the selftest's purpose (small semantic edits to",
        "code the suite does not pin); `tools/selftest_all.sh` re-runs all of them and writes `mutants/RESULTS.tsv`.", "",
        "| mutant | property | result | first clause reported |", "|--------|----------|--------|-----------------------|"]
res = f"{V}/mutants/RESULTS.tsv"
if os.path.exists(res):
    for line in open(res):
        p = line.rstrip("\n").split("\t")
        if len(p) >= 3:
            out.append(f"| {p[0]} | {p[1]} | {p[2]} | {(p[3] if len(p) > 3 else '').strip()} |")
out += ["", "### 10.5 Sensitivity: independently seeded changes (`seeded/<name>/`)", "",
        "Written by fresh sub-agents that saw only the text of one property and a scratch worktree of `/repo` (nothing from",
        "`/verif`), asked for a change that breaks the property, keeps the suite green and needs something specific to",
        "manifest. Each was confirmed in a fresh scratch copy (`tools/seedcheck.sh`: demo exits 0 without / non-zero with the",
        "change, baseline `missing=0`), then the property's quick check was run against the copy.", "",
        "| seeded change | property | needs | outcome |", "|---------------|----------|-------|---------|"]
import collections, re
rounds = collections.OrderedDict()
for d in sorted(glob.glob(f"{V}/seeded/*/meta.json")):
    m = json.load(open(d))
    name = os.path.basename(os.path.dirname(d))
    r = re.search(r"-r(\d)-", name)
    r = int(r.group(1)) if r else 1
    det = m["detected_by"].lower()
    cls = "not detected" if det.startswith("not detected") else ("missed at first, detected after strengthening" if ("missed at first" in det or "first run:" in det or "missed in the quick" in det or "missed by the first" in det or " after t" in det[:130] or "after the schema generator" in det) else "detected by the first run")
    rounds.setdefault(r, collections.Counter())[cls] += 1
summary = ["| round | changes | detected by the first run | missed at first, detected after strengthening | not detected |",
           "|-------|---------|---------------------------|-----------------------------------------------|--------------|"]
for r, c in sorted(rounds.items()):
    summary.append(f"| {r} | {sum(c.values())} | {c['detected by the first run']} | {c['missed at first, detected after strengthening']} | {c['not detected']} |")
out[-2:-2] = summary + ["", "Every miss had one of two causes: the generator never produced the shape the change needs, or the excluded region",
                        "of an open finding was wider than the defect; the remedy was always a new shape / a narrower region, never a looser",
                        "oracle. Two misses uncovered genuine defects of the unchanged tree (FX-12, KF-C04-8, KF-C05-2, KF-C16-3).", ""]
for d in sorted(glob.glob(f"{V}/seeded/*/meta.json")):
    m = json.load(open(d))
    out.append(f"| `{os.path.basename(os.path.dirname(d))}` | {m['property']} | {m['needs']} | {m['detected_by']} |")
s = open(f"{V}/DESIGN.md").read()
marker = "\n" + "-" * 93 + "\n\n## 10."
if marker in s:
    s = s[: s.index(marker)]
open(f"{V}/DESIGN.md", "w").write(s.rstrip("\n") + "\n" + "\n".join(out) + "\n")
print("DESIGN.md section 10 regenerated")
