#!/bin/bash
# tools/seedcheck.sh <ID> <worktree> <name> : take an independently written breaking change from a scratch worktree,
# confirm it (baseline still green, demo fails with / passes without the change) in a fresh scratch copy of /repo,
# store it under seeded/<name>/ and run the property's quick check against it.
set -u
ID=$1; WT=$2; NAME=$3
V=$(cd "$(dirname "$0")/.." && pwd)
D=$V/seeded/$NAME; mkdir -p $D
git -C $WT diff -- ariadne_codegen > $D/patch.diff
[ -s $D/patch.diff ] || { echo "EMPTY DIFF"; exit 3; }
cp $WT/demo_break.py $D/demo_break.py 2>/dev/null || echo "no demo_break.py"
SCR=$(mktemp -d /tmp/vf_seed.XXXXXX)
rsync -a --exclude .git --exclude __pycache__ /repo/ $SCR/repo/
cp $D/demo_break.py $SCR/repo/ 2>/dev/null
# demo on the unmodified tree
( cd $SCR/repo && PYTHONPATH=$SCR/repo timeout 300 /venv/bin/python demo_break.py > $SCR/demo_clean.log 2>&1 ); RC_CLEAN=$?
( cd $SCR/repo && patch -p1 -s < $D/patch.diff ) || { echo "PATCH FAILED"; rm -rf $SCR; exit 3; }
( cd $SCR/repo && PYTHONPATH=$SCR/repo timeout 300 /venv/bin/python demo_break.py > $SCR/demo_broken.log 2>&1 ); RC_BROKEN=$?
BASE=$(/venv/bin/python $V/tools/baseline.py $SCR/repo | head -1)
echo "demo: clean rc=$RC_CLEAN broken rc=$RC_BROKEN | $BASE"
tail -3 $SCR/demo_broken.log | cut -c1-300
RESULTS=""
for seed in 1 2; do
  ( cd $V && VERIF_REPO=$SCR/repo VERIF_SEED=$seed ./check $ID quick > $SCR/check_$seed.log 2>&1 ); RC=$?
  RESULTS="$RESULTS seed$seed:exit$RC"
  grep -E "clause=" $SCR/check_$seed.log | head -2 | cut -c1-260
done
echo "check $ID:$RESULTS"
cat > $D/run.txt <<EOT
property: $ID
demo on unmodified tree: exit $RC_CLEAN ; with the change: exit $RC_BROKEN
baseline with the change: $BASE
./check $ID quick against a scratch copy of /repo with the change applied (VERIF_REPO):$RESULTS
first reported clauses:
$(grep -hE "clause=" $SCR/check_1.log | head -3 | cut -c1-300)
EOT
rm -rf $SCR
