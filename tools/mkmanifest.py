#!/venv/bin/python
"""Regenerate MANIFEST.json from the table below (single source of truth for what is claimed)."""
import json, os
V = os.path.dirname(os.path.dirname(os.path.abspath(__file__)))
ALL = [f"C{i:02d}" for i in range(1, 20)]
CHECKS = json.load(open(os.path.join(V, "tools", "checks.json")))
NA_REASON = "check not built yet in this round; planned in DESIGN.md section 6 (generated-input search applies)"
man = {
    "version": 1,
    "setup_cmd": "/venv/bin/pip install -q --no-index --find-links /opt/veriftools/wheels hypothesis >/dev/null 2>&1; /venv/bin/python -c 'import hypothesis, graphql, pydantic, httpx, black, isort, autoflake'",
    "hooks": {
        "guard": "ARIADNE_CODEGEN_VERIF",
        "enable": "none needed: every property is observable through public functions, generated files, the HTTP transport and user-supplied scalar functions; no source hooks were added",
        "baseline_off_cmd": "/verif/tools/baseline.py /repo",
        "source_commits": [],
        "add_only": True,
    },
    "engines": [
        {"name": "e2e", "path": "vf/e2e.py", "serves_properties": ["C01","C02","C03","C04","C05","C06","C07","C08","C09","C15","C18","C19"],
         "kind_free_text": "hypothesis-generated schema+operations+config -> ariadne_codegen.main.client in a forked child -> import -> drive through httpx.MockTransport against a graphql-core reference server"},
        {"name": "baseclient", "path": "vf/baseclient.py", "serves_properties": ["C11","C12","C13"],
         "kind_free_text": "the four bundled base clients driven directly with generated variables / responses / frame scripts"},
        {"name": "schemagen", "path": "vf/props/c16.py", "serves_properties": ["C16"], "kind_free_text": "ariadne_codegen.main.graphql_schema on generated decorated schemas, generated module executed with runpy"},
        {"name": "names", "path": "vf/props/c18.py", "serves_properties": ["C18"], "kind_free_text": "process_name laws by enumeration + two-name scope projects through the e2e engine"},
        {"name": "builder", "path": "vf/props/c14.py", "serves_properties": ["C14"], "kind_free_text": "intent trees realised through the generated custom_fields / custom_queries builder classes, histories on one imported package, fresh-process differential"},
        {"name": "cli", "path": "vf/props/c17.py", "serves_properties": ["C10","C17","C19"],
         "kind_free_text": "subprocess / CliRunner runs of the command with generated projects, hash seeds, histories"},
    ],
    "checks": [],
    "not_applicable": [],
    "notes": "All checks: ./check <ID> <tier>; exit 0 held / 1 VIOLATION / 2 harness error. Known findings: known_findings.json (KNOWN-FINDING lines). See DESIGN.md.",
}
for pid in ALL:
    c = CHECKS.get(pid)
    if not c:
        man["not_applicable"].append({"property_id": pid, "reason": NA_REASON})
        continue
    man["checks"].append({
        "property_id": pid,
        "quick_cmd": f"./check {pid} quick",
        "thorough_cmd": f"./check {pid} thorough",
        "evidence_file": f"evidence/{pid}.json",
        "replay_cmd_template": f"./check {pid} --replay {{path}}",
        "engine": c["engine"],
        "level_claimed": {"category": "exploration", "text": c["text"], "design_ref": f"DESIGN.md section 6 / {pid}"},
        "level_note": c["note"],
        "technique": c["technique"],
    })
json.dump(man, open(os.path.join(V, "MANIFEST.json"), "w"), indent=1)
print("checks:", [c["property_id"] for c in man["checks"]])
