#!/venv/bin/python
"""Run the repository's pinned baseline (guard OFF) and compare with /root/.vp/BASELINE.json.
usage: tools/baseline.py [repo_dir]   -> exit 0 iff every stable_pass test passes."""
import json, os, subprocess, sys, tempfile
import xml.etree.ElementTree as ET

repo = sys.argv[1] if len(sys.argv) > 1 else "/repo"
base = json.load(open("/root/.vp/BASELINE.json"))
want = set(base["stable_pass"])
fd, xml = tempfile.mkstemp(suffix=".xml"); os.close(fd)
env = dict(os.environ); env.pop("ARIADNE_CODEGEN_VERIF", None)
env["PYTHONPATH"] = repo
cmd = ["/venv/bin/python", "-m", "pytest", "-q", "-p", "no:cacheprovider", "--timeout=900",
       "--continue-on-collection-errors", "-n", "8", f"--junitxml={xml}"]
subprocess.run(cmd, cwd=repo, env=env, stdout=subprocess.DEVNULL, stderr=subprocess.DEVNULL)
passed = set()
for tc in ET.parse(xml).getroot().iter("testcase"):
    if not any(ch.tag in ("failure", "error", "skipped") for ch in tc):
        # parametrised ids of a few tests embed the absolute repository path
        passed.add(f"{tc.get('classname')}::{tc.get('name')}".replace(os.path.realpath(repo), "/repo").replace(repo.rstrip("/"), "/repo"))
os.unlink(xml)
missing = sorted(want - passed)
print(f"baseline stable_pass={len(want)} passed_now={len(passed)} missing={len(missing)} extra_passing={len(passed - want)}")
for m in missing[:40]:
    print("  NOT PASSING:", m)
sys.exit(1 if missing else 0)
