#!/venv/bin/python
"""tools/addkf.py <KF-ID> <PROPERTY> <src-replay.json> <triggers,comma> <what...>
Run the reproducer with the property's own run_case, record clause/signature of its first failure, copy it to
replays/<PROPERTY>/<kf-id>.json and add/replace the entry in known_findings.json (status open)."""
import importlib, json, os, shutil, sys
sys.path.insert(0, os.environ.get("VERIF_REPO", "/repo")); sys.path.insert(1, "/verif")
from vf import runner
kid, pid, src, triggers = sys.argv[1:5]
what = " ".join(sys.argv[5:])
mod = importlib.import_module(f"vf.props.{pid.lower()}")
rec, v = runner.run_replay_file(mod, src)
fails = v.get("failures") or []
if not fails:
    sys.exit(f"reproducer does not fail: {str(v)[:500]}")
f = fails[0]
dst_rel = f"replays/{pid}/{kid.lower()}.json"
os.makedirs(os.path.dirname("/verif/" + dst_rel), exist_ok=True)
rec.update(property=pid, clause=f["clause"], signature=f["sig"], message=f["msg"][:600])
json.dump(rec, open("/verif/" + dst_rel, "w"), indent=1)
path = "/verif/known_findings.json"
kf = json.load(open(path))
kf["findings"] = [k for k in kf["findings"] if k["id"] != kid]
sig = f["sig"]
kf["findings"].append({"id": kid, "property": pid, "status": "open", "what": what,
                       "triggers": [t for t in triggers.split(",") if t], "clause": f["clause"],
                       "signature": sig.split("@")[0] if sig else "", "repro": dst_rel})
kf["findings"].sort(key=lambda k: k["id"])
json.dump(kf, open(path, "w"), indent=1)
print(kid, "->", f["clause"], sig, "|", f["msg"][:120])
