"""End-to-end engine: generate a client package from a case, import it, drive it through
httpx.MockTransport against the reference server.  Runs inside a forked child (cwd = scratch).
"""
import asyncio
import importlib
import inspect
import json
import os
import sys
import traceback

import httpx

from vf.gen_schema import canon
from vf.refserver import RefServer

REPO = os.environ.get("VERIF_REPO", "/repo")


def innermost_repo_frame(tb):
    """file:function of the innermost traceback frame inside ariadne_codegen (for bucketing)."""
    last = None
    for fs in traceback.extract_tb(tb):
        if "ariadne_codegen" in fs.filename:
            last = f"{os.path.basename(fs.filename)}:{fs.name}"
    return last or "outside"


def exc_sig(exc):
    return f"{type(exc).__module__}.{type(exc).__name__}@{innermost_repo_frame(exc.__traceback__)}"


def write_project(case, scratch):
    """Write the input files of a case; return the config dict as the CLI would load it."""
    with open(os.path.join(scratch, "schema.graphql"), "w", encoding="utf-8") as fh:
        fh.write(case["sdl"])
    if case.get("queries") is not None:
        with open(os.path.join(scratch, "queries.graphql"), "w", encoding="utf-8") as fh:
            fh.write(case["queries"])
    for rel, content in (case.get("files") or {}).items():
        path = os.path.join(scratch, rel)
        os.makedirs(os.path.dirname(path) or scratch, exist_ok=True)
        with open(path, "w", encoding="utf-8") as fh:
            fh.write(content)
    section = {"schema_path": "schema.graphql", "include_comments": "none"}
    if case.get("queries") is not None:
        section["queries_path"] = "queries.graphql"
    section.update(case.get("config") or {})
    return {"tool": {"ariadne-codegen": section}}


def generate(case, scratch):
    """Run the client strategy exactly as the CLI does.  Returns dict(ok, exc, sig, msg, stdout)."""
    import io
    from contextlib import redirect_stdout

    from ariadne_codegen.main import client

    cfg = write_project(case, scratch)
    buf = io.StringIO()
    try:
        if scratch not in sys.path:
            sys.path.insert(0, scratch)  # plugins given as modules of the project
        with redirect_stdout(buf):
            client(cfg)
    except BaseException as exc:  # noqa: BLE001
        return {
            "ok": False, "exc": exc, "type": type(exc).__name__, "sig": exc_sig(exc),
            "msg": str(exc)[:600], "stdout": buf.getvalue(),
            "codegen_exc": _is_codegen_exc(exc),
        }
    return {"ok": True, "stdout": buf.getvalue()}


def _is_codegen_exc(exc):
    from ariadne_codegen.exceptions import CodeGenException

    return isinstance(exc, CodeGenException)


def package_name(case):
    return (case.get("config") or {}).get("target_package_name", "graphql_client")


def import_package(case, scratch):
    if scratch not in sys.path:
        sys.path.insert(0, scratch)
    importlib.invalidate_caches()
    return importlib.import_module(package_name(case))


def client_class(pkg, case):
    cfg = case.get("config") or {}
    mod = importlib.import_module(f"{pkg.__name__}.{cfg.get('client_file_name', 'client')}")
    return getattr(mod, cfg.get("client_name", "Client"))


class Transport:
    """Records every request and answers it with `responder(body_json, request)`."""

    def __init__(self, responder):
        self.responder = responder
        self.requests = []

    def __call__(self, request):
        content = request.content
        self.requests.append(request)
        try:
            body = json.loads(content)
        except ValueError:
            body = None
        status, payload = self.responder(body, request)
        if isinstance(payload, (bytes, str)):
            return httpx.Response(status, content=payload)
        return httpx.Response(status, json=payload)


def make_client(pkg, case, transport, **kwargs):
    cfg = case.get("config") or {}
    cls = client_class(pkg, case)
    if cfg.get("async_client", True):
        http = httpx.AsyncClient(transport=httpx.MockTransport(transport))
    else:
        http = httpx.Client(transport=httpx.MockTransport(transport))
    return cls(url="http://verif.test/graphql", http_client=http, **kwargs)


def method_for(client, op_name):
    """The generated method of an operation: observed, not predicted — the unique public
    coroutine/function of the client class whose canonical name equals the operation's."""
    want = canon(op_name)
    cands = [
        n for n, _ in inspect.getmembers(type(client), predicate=inspect.isfunction)
        if canon(n) == want and n in type(client).__dict__
    ]
    if len(cands) != 1:
        return None
    return getattr(client, cands[0])


def param_for(method, var_name):
    """Python parameter of GraphQL variable `var_name` (observed from the signature; variable
    names are canonically unique per operation by construction)."""
    want = canon(var_name)
    cands = [p for p in inspect.signature(method).parameters if canon(p) == want and p not in ("self", "kwargs")]
    if not cands and want in ("self", "kwargs"):
        cands = [p for p in inspect.signature(method).parameters if canon(p) == want]
    return cands[0] if len(cands) == 1 else None


def run_call(case, method, kwargs):
    """Call a generated method (sync or async).  Returns (value, exception)."""
    try:
        if inspect.iscoroutinefunction(method):
            return asyncio.run(method(**kwargs)), None
        return method(**kwargs), None
    except BaseException as exc:  # noqa: BLE001
        return None, exc


# ------------------------------------------------------------------ value specs -> python


def _cls(pkg, name):
    """a generated class by name: re-exported by the package, or (NoReimports) found in its modules"""
    if hasattr(pkg, name):
        return getattr(pkg, name)
    import pkgutil

    for m in pkgutil.iter_modules(pkg.__path__):
        mod = importlib.import_module(f"{pkg.__name__}.{m.name}")
        obj = vars(mod).get(name)
        if isinstance(obj, type) and obj.__module__ == mod.__name__:
            return obj
    raise AttributeError(f"no class {name} in package {pkg.__name__}")


def spec_to_python(pkg, spec):
    """Build the Python argument for a value specification from the generated package's own
    classes (enum members, input models by alias or by python field name)."""
    if isinstance(spec, dict) and "$e" in spec:
        ename, val = spec["$e"]
        enum_cls = _cls(pkg, ename)
        return enum_cls(val)
    if isinstance(spec, dict) and "$money" in spec:
        return f"m#{spec['$money']}" if spec["$money"] else ""
    if isinstance(spec, dict) and "$dt" in spec:
        import datetime

        return datetime.datetime.fromisoformat(spec["$dt"])
    if isinstance(spec, dict) and "$i" in spec:
        cls = _cls(pkg, spec["$i"])
        fields = {k: spec_to_python(pkg, v) for k, v in spec["f"].items()}
        if spec.get("by") == "name":
            by_name = {}
            for gql, v in fields.items():
                py = [n for n, f in cls.model_fields.items() if (f.alias or n) == gql]
                if len(py) != 1:
                    raise LookupError(f"input field {spec['$i']}.{gql} has no unique python name: {py}")
                by_name[py[0]] = v
            return cls(**by_name)
        return cls.model_validate(fields)
    if isinstance(spec, list):
        return [spec_to_python(pkg, x) for x in spec]
    return spec


def server_for(case, **kw):
    merged = dict(case.get("server_kw") or {})
    merged.update(kw)
    if "unique_scalars" in merged and isinstance(merged["unique_scalars"], list):
        merged["unique_scalars"] = set(merged["unique_scalars"])
    return RefServer(case["sdl"], seed=case.get("server_seed", 0), null_p=case.get("null_p", 0.2), **merged)


class Session:
    """generate -> import -> client; `failure` is set when one of the steps did not work."""

    def __init__(self, case, scratch, server_kw=None, client_kw=None):
        self.case = case
        self.failure = None
        self.gen = generate(case, scratch)
        if not self.gen["ok"]:
            self.failure = {"clause": "generation", "sig": self.gen["sig"], "msg": f"{self.gen['type']}: {self.gen['msg']}"}
            return
        try:
            self.pkg = import_package(case, scratch)
        except BaseException as exc:  # noqa: BLE001
            self.failure = {"clause": "import", "sig": type(exc).__name__, "msg": repr(exc)[:400]}
            return
        self.server = server_for(case, **(server_kw or {}))
        self.transport = Transport(self._respond)
        self.client = make_client(self.pkg, case, self.transport, **(client_kw or {}))
        self.ops = {o["name"]: o for o in case["ops"]}

    forced_response = None  # when set, answered instead of executing (differential runs replay the reference's response)

    def _respond(self, body, req):
        if self.forced_response is not None:
            self.server.calls.append({"body": body, "errors": None, "data": self.forced_response.get("data"), "forced": True,
                                      "rtypes": {}, "ftypes": {}, "args": {}, "objects": 0})
            return 200, self.forced_response
        return 200, self.server.handle(body)[0]

    def _subscribe(self, method, kwargs, out):
        """Drive a generated subscription method over a scripted graphql-transport-ws socket (ack, then complete):
        out["request"].content is the payload of the subscribe frame, so callers read it like an HTTP body."""
        import sys
        import types

        sent = []
        session = self
        n0 = len(self.server.calls)

        class _WS:
            def __init__(self):
                self.queue = []

            async def send(self, msg):
                m = json.loads(msg)
                sent.append(m)
                if m.get("type") == "connection_init":
                    self.queue.append(json.dumps({"type": "connection_ack"}))
                elif m.get("type") == "subscribe":
                    # one event: what the reference server answers for the subscription document, then complete
                    try:
                        status, resp = session._respond(m.get("payload") or {}, None)
                    except Exception:  # noqa: BLE001
                        resp = None
                    if isinstance(resp, dict) and resp.get("data") is not None and not resp.get("errors"):
                        self.queue.append(json.dumps({"type": "next", "id": m.get("id"), "payload": {"data": resp["data"]}}))
                    self.queue.append(json.dumps({"type": "complete", "id": m.get("id")}))

            async def recv(self):
                return self.queue.pop(0)

            def __aiter__(self):
                return self

            async def __anext__(self):
                if self.queue:
                    return self.queue.pop(0)
                raise StopAsyncIteration

            async def close(self, *a, **k):
                self.queue.clear()

        class _Connect:
            def __init__(self, *a, **k):
                pass

            async def __aenter__(self):
                return _WS()

            async def __aexit__(self, *a):
                return False

        patched = []
        for cls in type(self.client).__mro__:
            mod = sys.modules.get(cls.__module__)
            if isinstance(mod, types.ModuleType) and hasattr(mod, "ws_connect"):
                patched.append((mod, mod.ws_connect))
                mod.ws_connect = _Connect

        async def drive():
            items = []
            async for item in method(**kwargs):
                items.append(item)
            return items

        try:
            out["value"] = asyncio.run(drive())
        except BaseException as exc:  # noqa: BLE001
            out["exc"] = exc
        finally:
            for mod, orig in patched:
                mod.ws_connect = orig
        if len(self.server.calls) > n0:
            out["rec"] = self.server.calls[n0]
        if isinstance(out["value"], list):
            # callers treat the result like the value of a query method: the single event (None when there was none)
            out["events"] = out["value"]
            out["value"] = out["value"][0] if out["value"] else None
        sub = [m for m in sent if m.get("type") == "subscribe"]
        if sub:
            out["request"] = types.SimpleNamespace(content=json.dumps(sub[0].get("payload") or {}).encode(), frames=sent)
        return out

    def call(self, call):
        """Returns dict(op, method, kwargs, value, exc, rec, request, problem)."""
        op = self.ops[call["op"]]
        out = {"op": op, "value": None, "exc": None, "rec": None, "request": None, "problem": None}
        method = method_for(self.client, op["name"])
        if method is None:
            out["problem"] = {"clause": "method", "sig": "no-method", "msg": f"no unique method for operation {op['name']}"}
            return out
        kwargs = {}
        for var, spec in call["args"].items():
            p = param_for(method, var)
            if p is None:
                out["problem"] = {"clause": "method", "sig": "no-param", "msg": f"no unique parameter for ${var} of {op['name']}"}
                return out
            try:
                kwargs[p] = spec_to_python(self.pkg, spec)
            except Exception as exc:  # noqa: BLE001
                out["problem"] = {"clause": "argument_build", "sig": type(exc).__name__, "msg": f"${var}: {exc}"[:300]}
                return out
        out["kwargs"] = kwargs
        out["method"] = method
        if op["kind"] == "subscription":
            return self._subscribe(method, kwargs, out)
        n0, r0 = len(self.server.calls), len(self.transport.requests)
        out["value"], out["exc"] = run_call(self.case, method, kwargs)
        if len(self.server.calls) > n0:
            out["rec"] = self.server.calls[n0]
        if len(self.transport.requests) > r0:
            out["request"] = self.transport.requests[r0]
        return out
