"""Hypothesis strategy producing whole projects (schema + operations + config + calls) as
JSON-able case dicts."""
from graphql import assert_valid_schema, build_schema, parse, specified_rules, validate
from graphql.validation import NoUnusedFragmentsRule
from hypothesis import strategies as st

from vf.gen_common import D
from vf.gen_ops import OpGen, gen_call_args
from vf.gen_schema import gen_schema, render_sdl

RULES = [r for r in specified_rules if r is not NoUnusedFragmentsRule]

MIXIN_MODULE = '''class MixinA:
    def mixin_a(self):
        return "a"


class MixinB:
    mixin_b_marker = True
'''


def build(d, *, schema_kw=None, ops_kw=None, doc_kw=None, config=None, calls_per_op=2,
          mixins=False, omit_p=0.5):
    desc = gen_schema(d, **(schema_kw or {}))
    sdl = render_sdl(desc)
    try:
        schema = build_schema(sdl)
        assert_valid_schema(schema)
    except Exception as exc:  # noqa: BLE001  generator bug, never a violation
        return {"rejected": f"schema: {exc}"[:300], "sdl": sdl}
    files = {}
    mixin_list = None
    if mixins:
        files["mixins.py"] = MIXIN_MODULE
        mixin_list = [("mixins", "MixinA"), ("mixins", "MixinB")]
    og = OpGen(d, schema, desc, mixins=mixin_list, **(ops_kw or {}))
    ops, queries = og.gen_document(**(doc_kw or {}))
    if not ops:
        return {"rejected": "no operation could be generated", "sdl": sdl}
    try:
        doc = parse(queries)
        vschema = schema
        if mixins:
            from graphql import extend_schema

            vschema = extend_schema(
                schema,
                parse("directive @mixin(from: String, import: String) repeatable on FIELD | FRAGMENT_DEFINITION"),
            )
        errs = validate(vschema, doc, RULES)
    except Exception as exc:  # noqa: BLE001
        return {"rejected": f"queries syntax: {exc}"[:300], "sdl": sdl, "queries": queries}
    if errs:
        return {"rejected": "queries invalid: " + errs[0].message[:200], "sdl": sdl, "queries": queries}
    calls = []
    for op in ops:
        for _ in range(calls_per_op):
            calls.append({"op": op["name"], "args": gen_call_args(d, desc, op, omit_p=omit_p)})
    cfg = dict(config or {})
    if mixins:
        cfg["files_to_include"] = ["mixins.py"]
    case = {
        "sdl": sdl,
        "queries": queries,
        "config": cfg,
        "files": files,
        "ops": [{"name": o["name"], "kind": o["kind"], "vars": o["vars"]} for o in ops],
        "calls": calls,
        "server_seed": d.int(0, 2**20),
        "null_p": d.choice([0.2, 0.0, 0.5]),
        "desc": {"enums": desc.enums, "inputs": {k: [list(f) for f in v] for k, v in desc.inputs.items()},
                 "scalars": desc.scalars},
        "features": sorted(d.features),
    }
    return case


def base_config(d, *, otel=True):
    cfg = {}
    if not d.bool(0.6):
        cfg["convert_to_snake_case"] = False
    else:
        d.tag("cfg.snake")
    if d.bool(0.5):
        cfg["async_client"] = False
        d.tag("cfg.sync")
    if otel and d.bool(0.3):
        cfg["opentelemetry_client"] = True
        d.tag("cfg.otel")
    return cfg


def project_strategy(**kw):
    cfg_fn = kw.pop("config_fn", base_config)

    @st.composite
    def _s(draw):
        d = D(draw)
        cfg = cfg_fn(d)
        case = build(d, config=cfg, **kw)
        case["features"] = sorted(d.features)
        return case

    return _s()
