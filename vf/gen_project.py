"""Hypothesis strategy producing whole projects (schema + operations + config + calls) as
JSON-able case dicts."""
from graphql import assert_valid_schema, build_schema, parse, specified_rules, validate
from graphql.validation import NoUnusedFragmentsRule
from hypothesis import strategies as st

from vf.gen_common import D
from vf.gen_ops import OpGen, gen_call_args
from vf.gen_schema import gen_schema, render_sdl

RULES = [r for r in specified_rules if r is not NoUnusedFragmentsRule]

MIXIN_MODULE = '''class MixinA:
    def mixin_a(self):
        return "a"


class MixinB:
    mixin_b_marker = True
'''


def _class_path_collision(doc):
    """do two different selection paths of the document spell the same result class name?  (names compared without case
    and underscores: conservative)"""
    try:
        seen = {}

        def walk(selection_set, defname, path):
            for sel in selection_set.selections:
                kind = type(sel).__name__
                if kind == "FieldNode" and sel.selection_set is not None:
                    key = sel.alias.value if sel.alias else sel.name.value
                    new = path + (key,)
                    norm = (defname + "".join(new)).lower().replace("_", "")
                    if seen.setdefault(norm, (defname, new)) != (defname, new):
                        return True
                    if walk(sel.selection_set, defname, new):
                        return True
                elif kind == "InlineFragmentNode":
                    if walk(sel.selection_set, defname, path):
                        return True
            return False

        for definition in doc.definitions:
            if getattr(definition, "name", None) is not None and getattr(definition, "selection_set", None) is not None:
                if walk(definition.selection_set, definition.name.value, ()):
                    return True
        return False
    except Exception:  # noqa: BLE001  never let the filter itself stop a case
        return False


def build(d, *, schema_kw=None, ops_kw=None, doc_kw=None, config=None, calls_per_op=2,
          mixins=False, omit_p=0.5, config_desc_fn=None, desc_hook=None, subscriptions_if_async=False):
    if subscriptions_if_async and (config or {}).get("async_client", True) and d.bool(0.5):
        # subscriptions need the asynchronous client (a synchronous one is a documented refusal)
        schema_kw = dict(schema_kw or {}, subscription=True)
        doc_kw = dict(doc_kw or {}, kinds=tuple((doc_kw or {}).get("kinds", ("query", "mutation"))) + ("subscription",))
        d.tag("cfg.subscriptions")
    desc = gen_schema(d, **(schema_kw or {}))
    if desc_hook is not None:
        desc_hook(d, desc)
    sdl = render_sdl(desc)
    try:
        schema = build_schema(sdl)
        assert_valid_schema(schema)
    except Exception as exc:  # noqa: BLE001  generator bug, never a violation
        return {"rejected": f"schema: {exc}"[:300], "sdl": sdl}
    files = {}
    mixin_list = None
    if mixins:
        files["mixins.py"] = MIXIN_MODULE
        mixin_list = [("mixins", "MixinA"), ("mixins", "MixinB")]
    og = OpGen(d, schema, desc, mixins=mixin_list, **(ops_kw or {}))
    ops, queries = og.gen_document(**(doc_kw or {}))
    if not ops:
        return {"rejected": "no operation could be generated", "sdl": sdl}
    try:
        doc = parse(queries)
        vschema = schema
        if mixins:
            from graphql import extend_schema

            vschema = extend_schema(
                schema,
                parse("directive @mixin(from: String, import: String) repeatable on FIELD | FRAGMENT_DEFINITION"),
            )
        errs = validate(vschema, doc, RULES)
    except Exception as exc:  # noqa: BLE001
        return {"rejected": f"queries syntax: {exc}"[:300], "sdl": sdl, "queries": queries}
    if errs:
        return {"rejected": "queries invalid: " + errs[0].message[:200], "sdl": sdl, "queries": queries}
    if _class_path_collision(doc) and not d.enabled("names.class_path_collision"):
        # KF-C05-3: result classes are named <Definition><Key><Key>...; two different paths can spell the same name
        return {"rejected": "two selection paths spell the same result class name (KF-C05-3)", "sdl": sdl, "queries": queries}
    calls = []
    for op in ops:
        for _ in range(calls_per_op):
            calls.append({"op": op["name"], "args": gen_call_args(d, desc, op, omit_p=omit_p)})
    cfg = dict(config or {})
    if config_desc_fn is not None:
        cfg2, files2 = config_desc_fn(d, desc)
        cfg.update(cfg2)
        files.update(files2)
    if mixins:
        cfg.setdefault("files_to_include", []).append("mixins.py")
    case = {
        "sdl": sdl,
        "queries": queries,
        "config": cfg,
        "files": files,
        "ops": [{"name": o["name"], "kind": o["kind"], "vars": o["vars"]} for o in ops],
        "calls": calls,
        "server_seed": d.int(0, 2**20),
        "null_p": d.choice([0.2, 0.0, 0.5]),
        "desc": {"enums": desc.enums, "inputs": {k: [list(f) for f in v] for k, v in desc.inputs.items()},
                 "scalars": desc.scalars},
        "features": sorted(d.features),
    }
    case["_desc_obj"] = desc
    return case


def base_config(d, *, otel=True):
    cfg = {}
    if not d.bool(0.6):
        cfg["convert_to_snake_case"] = False
    else:
        d.tag("cfg.snake")
    if d.bool(0.5):
        cfg["async_client"] = False
        d.tag("cfg.sync")
    if otel and d.bool(0.3):
        cfg["opentelemetry_client"] = True
        d.tag("cfg.otel")
    return cfg


def project_strategy(**kw):
    cfg_fn = kw.pop("config_fn", base_config)
    force = tuple(kw.pop("force_features", ()))

    @st.composite
    def _s(draw):
        d = D(draw, force=force)
        cfg = cfg_fn(d)
        case = build(d, config=cfg, **kw)
        case.pop("_desc_obj", None)
        case["features"] = sorted(d.features)
        return case

    return _s()


# ------------------------------------------------------------------ wide configuration (C04)

SCALARS_IMPL = '''import datetime

CALLS = []


class Money:
    def __init__(self, raw):
        self.raw = raw

    def __eq__(self, other):
        return isinstance(other, Money) and other.raw == self.raw

    def __repr__(self):
        return f"Money({self.raw!r})"


def parse_money(value):
    CALLS.append(("parse", value))
    return Money(value)


# string-valued variant (C07): every combination of type / parse / serialize stays usable
MoneyStr = str


def parse_moneystr(value):
    CALLS.append(("parse", value))
    return "P:" + value if isinstance(value, str) else value


def serialize_moneystr(value):
    CALLS.append(("serialize", value))
    return "S:" + value if isinstance(value, str) else value


# a SECOND scalar mapped to the same Python type as MoneyStr, with its own (pass-through) functions
def parse_cents(value):
    return value


def serialize_cents(value):
    return value


def serialize_money(value):
    CALLS.append(("serialize", value))
    return value.raw if isinstance(value, Money) else value
'''

MODULE_NAMES = ["client", "gql_client", "api", "enums", "my_enums", "input_types", "inputs", "fragments", "frags",
                "base_model", "exceptions", "types_", "Models", "x1"]
CLASS_NAMES = ["Client", "GraphQLClient", "Api", "client", "MyClient2", "Models"]
PACKAGE_NAMES = ["graphql_client", "gql", "my_pkg", "Pkg2", "client"]


def scalar_config(d, name, style=None):
    style = style or d.weighted([(3, "builtin"), (2, "dotted"), (3, "relative"), (2, "deprecated_import"), (2, "none")])
    d.tag(f"scalar.{style}")
    if style == "none":
        return None, False
    if style == "builtin":
        return {"type": d.choice(["str", "int", "float", "bool"])}, False
    if style == "dotted":
        return {"type": d.choice(["datetime.datetime", "decimal.Decimal", "uuid.UUID"])}, False
    extras = d.choice([(), ("parse",), ("serialize",), ("parse", "serialize")])
    for e in extras:
        d.tag(f"scalar.with_{e}")
    if style == "relative":
        cfg = {"type": ".scalars_impl.Money"}
        for e in extras:
            cfg[e] = f".scalars_impl.{e}_money"
        return cfg, True
    cfg = {"type": "Money", "import": ".scalars_impl"}
    for e in extras:
        cfg[e] = f"{e}_money"
    return cfg, True


def wide_config(d, desc):
    cfg = base_config(d)
    custom_ops = getattr(desc, "want_custom_operations", None)
    if custom_ops is None:
        custom_ops = d.bool(0.25)
    if custom_ops:
        cfg["enable_custom_operations"] = True
        d.tag("cfg.custom_operations")

    def name_opt(key, pool, p):
        if d.bool(p):
            v = d.choice(pool)
            cfg[key] = v
            d.tag(f"cfg.{key}")

    name_opt("target_package_name", PACKAGE_NAMES, 0.3)
    name_opt("client_name", CLASS_NAMES, 0.3)
    name_opt("client_file_name", MODULE_NAMES, 0.25)
    name_opt("fragments_module_name", MODULE_NAMES, 0.25)
    if not custom_ops or d.enabled("customops.module_names"):
        name_opt("enums_module_name", MODULE_NAMES, 0.25)
        name_opt("input_types_module_name", MODULE_NAMES, 0.25)
    prune_ok = not custom_ops or d.enabled("customops.prune")
    if prune_ok and d.bool(0.3):
        cfg["include_all_inputs"] = False
        d.tag("cfg.prune_inputs")
    if prune_ok and d.bool(0.3):
        cfg["include_all_enums"] = False
        d.tag("cfg.prune_enums")
    if d.bool(0.3):
        cfg["include_comments"] = d.choice(["stable", "none"])
    files = {}
    scalars = {}
    need_impl = False
    for s in desc.scalars:
        sc, impl = scalar_config(d, s)
        if sc and custom_ops and not d.enabled("customops.custom_scalar"):
            sc = None
        if sc:
            scalars[s] = sc
            need_impl = need_impl or impl
    if scalars:
        cfg["scalars"] = scalars
    if need_impl:
        files["scalars_impl.py"] = SCALARS_IMPL
        cfg.setdefault("files_to_include", []).append("scalars_impl.py")
    if d.bool(0.2):
        files["extra_helpers.py"] = "HELPER = 1\n"
        cfg.setdefault("files_to_include", []).append("extra_helpers.py")
        d.tag("cfg.files_to_include")
    return cfg, files


def expected_file_names(cfg, ops, has_fragments_module=True):
    """File names (without .py) the documented layout puts in the package for this configuration."""
    from vf.gen_schema import canon  # noqa: F401

    names = [cfg.get("client_file_name", "client"), cfg.get("enums_module_name", "enums"),
             cfg.get("input_types_module_name", "input_types"), cfg.get("fragments_module_name", "fragments"),
             "base_model", "exceptions"]
    if cfg.get("async_client", True):
        names.append("async_base_client_open_telemetry" if cfg.get("opentelemetry_client") else "async_base_client")
    else:
        names.append("base_client_open_telemetry" if cfg.get("opentelemetry_client") else "base_client")
    for f in cfg.get("files_to_include", []):
        names.append(f[:-3])
    if cfg.get("enable_custom_operations"):
        names.append("base_operation")
    return names
