"""Thin layer over hypothesis draws shared by all generators."""
from collections import Counter

from hypothesis import strategies as st

from vf import findings

EXCLUDED = Counter()  # finding id -> number of draws steered away (measured per shard)


class D:
    """Draw helper: every random choice goes through hypothesis so that cases replay
    from the seed and shrink."""

    def __init__(self, draw, force=()):
        """force: triggers a property keeps switched ON although a known finding is open there, because its own
        oracle exempts exactly the positions the finding affects (the exemptions are counted by that oracle)"""
        self._draw = draw
        self.features = set()
        self._open = {k: v for k, v in findings.open_triggers().items() if k not in set(force)}

    def draw(self, strategy):
        return self._draw(strategy)

    def int(self, lo, hi):
        return self._draw(st.integers(lo, hi))

    def bool(self, p=0.5):
        # shrinks towards False.  The range is kept <= 256: hypothesis draws wider integer ranges non-uniformly
        # (measured: P[integers(0,999) >= 700] = 0.16), which silently halved every nominal probability.
        return self._draw(st.integers(0, 199)) >= 200 - int(round(p * 200))

    def choice(self, seq):
        seq = list(seq)
        return seq[self._draw(st.integers(0, len(seq) - 1))]

    def weighted(self, pairs):
        """pairs: [(weight, value)]; shrinks towards the first."""
        total = sum(w for w, _ in pairs)
        x = self._draw(st.integers(0, total - 1))
        for w, v in pairs:
            if x < w:
                return v
            x -= w
        return pairs[-1][1]

    def sample(self, seq, k):
        seq = list(seq)
        out = []
        for _ in range(min(k, len(seq))):
            out.append(seq.pop(self._draw(st.integers(0, len(seq) - 1))))
        return out

    def shuffle(self, seq):
        return self.sample(seq, len(seq))

    def tag(self, *names):
        self.features.update(names)

    def enabled(self, trigger, p=1.0):
        """Feature switch.  When an open known finding lives at `trigger`, the draw is
        still made, the fallback is taken and the steering is counted."""
        want = self.bool(p) if p < 1.0 else True
        if not want:
            return False
        kf = self._open.get(trigger)
        if kf:
            EXCLUDED[kf] += 1
            return False
        self.features.add(trigger)
        return True
