"""Own static walk over operations (independent of the code under test): which response keys an
object of a given runtime type has, from which field nodes, and whether they are conditional."""
from collections import OrderedDict

from graphql import (
    FieldNode,
    FragmentDefinitionNode,
    FragmentSpreadNode,
    InlineFragmentNode,
    OperationDefinitionNode,
    get_named_type,
    is_abstract_type,
    parse,
)


def fragments_of(doc):
    return {d.name.value: d for d in doc.definitions if isinstance(d, FragmentDefinitionNode)}


def operations_of(doc):
    return {d.name.value: d for d in doc.definitions if isinstance(d, OperationDefinitionNode) and d.name}


def has_condition(node):
    return any(d.name.value in ("skip", "include") for d in (node.directives or ()))


def applies(schema, type_condition_name, runtime):
    """does a fragment with this type condition apply to an object of runtime type `runtime`?"""
    if type_condition_name is None or type_condition_name == runtime.name:
        return True
    cond = schema.type_map[type_condition_name]
    return is_abstract_type(cond) and schema.is_sub_type(cond, runtime)


def collect(schema, fragments, selection_set, runtime, conditional=False, out=None, via=None, static=None):
    # "own_conditional": all occurrences carry @skip/@include on the FIELD itself; a key that is conditional but not
    # own_conditional owes it (also) to a directive on an enclosing inline fragment / fragment spread
    """response key -> {"nodes": [FieldNode...], "conditional": all occurrences are conditional,
    "fragments": names of the named fragments the key is (also) selected through,
    "statics": for each node the name of the type whose selection set it was written in (the field's STATIC parent
    type: the position's type, or the type condition of the enclosing fragment) - None when unknown}"""
    out = OrderedDict() if out is None else out
    static = static if static is not None else getattr(selection_set, "static_type", None)
    for sel in selection_set.selections:
        if isinstance(sel, FieldNode):
            key = sel.alias.value if sel.alias else sel.name.value
            e = out.setdefault(key, {"nodes": [], "conditional": True, "own_conditional": True, "fragments": set(), "statics": []})
            e["nodes"].append(sel)
            e["statics"].append(static)
            e["conditional"] = e["conditional"] and (conditional or has_condition(sel))
            e["own_conditional"] = e["own_conditional"] and has_condition(sel)
            if via:
                e["fragments"].add(via)
        elif isinstance(sel, InlineFragmentNode):
            tc = sel.type_condition.name.value if sel.type_condition else None
            if applies(schema, tc, runtime):
                collect(schema, fragments, sel.selection_set, runtime, conditional or has_condition(sel), out, via,
                        static=tc if tc is not None else static)
        elif isinstance(sel, FragmentSpreadNode):
            fr = fragments[sel.name.value]
            if applies(schema, fr.type_condition.name.value, runtime):
                collect(schema, fragments, fr.selection_set, runtime, conditional or has_condition(sel), out, sel.name.value,
                        static=fr.type_condition.name.value)
    return out


def field_def(schema, runtime, node):
    if node.name.value == "__typename":
        return None
    return runtime.fields[node.name.value]


def static_field_types(schema, info, runtime):
    """the field's type as the OPERATION types it: per contributing node the field definition of the type whose
    selection set the node was written in (an implementing object may narrow an interface field's type, but a field
    selected on the interface has the interface's type); falls back to the runtime type"""
    out = []
    for node, st in zip(info["nodes"], info["statics"]):
        if node.name.value == "__typename":
            continue
        t = schema.type_map.get(st) if st else None
        if t is None or not hasattr(t, "fields") or node.name.value not in t.fields:
            t = runtime
        out.append(t.fields[node.name.value].type)
    return out


def merged_selection(nodes):
    """the sub-selection sets of all field nodes merged under one response key"""
    return [n.selection_set for n in nodes if n.selection_set is not None]


class Merged:
    """a pseudo selection set: the union of several selection sets (fields merged under one key)"""

    def __init__(self, sets, static_type=None):
        self.selections = [s for ss in sets for s in ss.selections]
        self.static_type = static_type
