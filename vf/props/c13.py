"""C13 - Subscriptions follow the graphql-transport-ws protocol for every frame sequence."""
import asyncio
import contextlib
import hashlib
import itertools
import json

from hypothesis import strategies as st

from vf import baseclient as bc
from vf.gen_common import D

ID = "C13"
ISOLATE = False
EXHAUSTIVE = True
EXHAUSTIVE_SUBDOMAIN = "all server frame sequences of length <= 5 (quick) / <= 6 (thorough) over the 10-letter alphabet"
RULE = (
    "bounded-exhaustive: every sequence of server frames up to length 5 (quick) / 6 (thorough) over {ack, next, ping, "
    "pong, complete, error, non-JSON, unknown type, missing type, next-without-data}, each run on AsyncBaseClient and "
    "AsyncBaseClientOpenTelemetry (tracer none / NoOp / recording) with rotating configuration {init payload, variables "
    "none/UNSET/models, per-call headers}; plus hypothesis-drawn scripts up to length 30 and drawn scripts replayed "
    "against a real loopback websockets server (header keyword shimmed) to validate the fake connection. "
    "unit = (script, client variant); non-trivial = ack followed by >= 2 further frames of >= 2 kinds; "
    "distinct by sha256(script, configuration)."
)
ASSUMPTIONS = [
    "reference state machine written from the graphql-transport-ws protocol document and the property statement; "
    "permissive where the statement is silent (later ack / pong ignored; script ending before the ack not judged)",
    "the scripted fake connection models websockets' ClientConnection (recv / async-for / send / close); it is "
    "cross-checked against the real library on drawn scripts over loopback",
    "only websockets 17.1 is installed; other versions of the required range (>=14.2) cannot be tried",
]

ALPHABET = ["ack", "next", "ping", "pong", "complete", "error", "nonjson", "unknown", "missing", "nodata"]
WS_URL = "ws://verif.test/graphql"


def frame_text(kind, i):
    if kind == "ack":
        return json.dumps({"type": "connection_ack"})
    if kind == "next":
        return json.dumps({"type": "next", "id": "x", "payload": {"data": {"n": i, "s": f"v{i}"}}})
    if kind == "ping":
        return json.dumps({"type": "ping"})
    if kind == "pong":
        return json.dumps({"type": "pong"})
    if kind == "complete":
        return json.dumps({"type": "complete", "id": "x"})
    if kind == "error":
        return json.dumps({"type": "error", "id": "x", "payload": [{"message": f"e{i}"}, {"message": "second", "path": ["a"]}]})
    if kind == "error_bare":  # an error frame without payload / with an empty payload object: still an error frame
        return json.dumps({"type": "error", "id": "x"})
    if kind == "error_empty":
        return json.dumps({"type": "error", "id": "x", "payload": {}})
    if kind == "nonjson":
        return "this is not json {"
    if kind == "unknown":
        return json.dumps({"type": "data", "payload": {}})
    if kind == "missing":
        return json.dumps({"payload": {"data": {"n": i}}})
    if kind == "nodata":
        return json.dumps({"type": "next", "id": "x", "payload": {"errors": [{"message": "m"}]}})
    raise AssertionError(kind)


CONFIGS = [
    {"init": None, "vars": "none", "call_headers": False},
    {"init": {"token": "t", "n": 1}, "vars": "plain", "call_headers": True},
    {"init": None, "vars": "unset", "call_headers": False},
    {"init": {"a": [1, 2]}, "vars": "model", "call_headers": True},
    {"init": {}, "vars": "empty", "call_headers": False},
    {"init": {"k": "v"}, "vars": "none", "call_headers": True},
    {"init": None, "vars": "all_unset", "call_headers": False},
]
WS_VARIANTS = [v for v in bc.VARIANTS if v[3]]


def make_variables(kind):
    bm = bc.base_model()
    if kind == "none":
        return None, None
    if kind == "empty":
        return {}, None
    if kind == "plain":
        return {"id": "1", "n": [1, None]}, {"id": "1", "n": [1, None]}
    if kind == "all_unset":  # a subscription with optional arguments only, none given: an EMPTY variables object travels
        return {"a": bm.UNSET, "b": bm.UNSET}, {}
    if kind == "unset":
        return {"id": "1", "skip": bm.UNSET, "z": None}, {"id": "1", "z": None}
    In = _in_model()
    return {"input": In(fooBar=3), "items": [In(other="x"), In()]}, {"input": {"fooBar": 3}, "items": [{"other": "x"}, {}]}


_IN = None
_HTTP = None


def _http():
    """one shared (never used) http client: building a default httpx client loads the CA bundle (30 ms)"""
    global _HTTP
    if _HTTP is None:
        import httpx

        _HTTP = httpx.AsyncClient(transport=httpx.MockTransport(lambda r: httpx.Response(500)))
    return _HTTP



def _in_model():
    global _IN
    if _IN is None:
        from typing import Optional

        from pydantic import Field

        bm = bc.base_model()

        class In(bm.BaseModel):
            foo_bar: Optional[int] = Field(alias="fooBar", default=None)
            other: Optional[str] = None

        _IN = In
    return _IN


class Closed(Exception):
    pass


class FakeWS:
    """Scripted connection: delivers the script, then behaves like a closed connection."""

    def __init__(self, frames, buffered):
        self.frames = list(frames)
        self.buffered = list(buffered)
        self.i = 0
        self.sent = []
        self.closed = False

    async def send(self, msg):
        if self.closed:
            from websockets.exceptions import ConnectionClosedOK

            raise ConnectionClosedOK(None, None)
        self.sent.append(msg)

    def _next(self):
        while self.i < len(self.frames):
            j = self.i
            self.i += 1
            if self.closed and not self.buffered[j]:
                continue
            return self.frames[j]
        return None

    async def recv(self):
        await asyncio.sleep(0)
        f = self._next()
        if f is None:
            from websockets.exceptions import ConnectionClosedOK

            raise ConnectionClosedOK(None, None)
        return f

    def __aiter__(self):
        return self

    async def __anext__(self):
        await asyncio.sleep(0)
        f = self._next()
        if f is None:
            raise StopAsyncIteration
        return f

    async def close(self):
        self.closed = True


def model(script, cfg, expected_vars):
    """Reference state machine -> (n_subscribe, pongs, yielded, outcome) or None when not judged."""
    if not script:
        return None
    first = script[0]
    if first[0] != "ack":
        return {"subscribe": 0, "pongs": 0, "yielded": [], "outcome": ("invalid",)}
    yielded, pongs = [], 0
    for kind, i, buffered in script[1:]:
        if kind in ("ack", "pong"):
            continue
        if kind == "next":
            yielded.append({"n": i, "s": f"v{i}"})
        elif kind == "ping":
            pongs += 1
        elif kind == "complete":
            return {"subscribe": 1, "pongs": pongs, "yielded": yielded, "outcome": ("end",)}
        elif kind == "error":
            return {"subscribe": 1, "pongs": pongs, "yielded": yielded, "outcome": ("multi", [f"e{i}", "second"])}
        elif kind in ("error_bare", "error_empty"):
            return {"subscribe": 1, "pongs": pongs, "yielded": yielded, "outcome": ("multi", [])}
        else:
            return {"subscribe": 1, "pongs": pongs, "yielded": yielded, "outcome": ("invalid",)}
    return {"subscribe": 1, "pongs": pongs, "yielded": yielded, "outcome": ("end",)}


def run_fake(variant, script, cfg):
    """Run execute_ws against the scripted fake; returns observables."""
    label, module, cls_name, _is_async, tracer = variant
    m = bc.mod(module)
    frames = [frame_text(k, i) for k, i, _b in script]
    fake = FakeWS(frames, [b for _k, _i, b in script])
    connect = {}

    @contextlib.asynccontextmanager
    async def fake_connect(url, **kwargs):
        connect["url"] = url
        connect["kwargs"] = kwargs
        yield fake

    variables, _expected = make_variables(cfg["vars"])
    kwargs = {}
    if tracer is not None:
        kwargs["tracer"] = bc.tracer_of(tracer)
    client = getattr(m, cls_name)(
        url="http://verif.test/graphql", http_client=_http(), ws_url=WS_URL, ws_headers={"Auth": "conf", "Keep": "1"},
        ws_origin="https://origin.test", ws_connection_init_payload=cfg["init"], **kwargs,
    )
    call_kwargs = {"extra_headers": {"Auth": "call", "Extra": "e"}} if cfg["call_headers"] else {}
    yielded = []
    outcome = ("end",)
    orig = m.ws_connect
    m.ws_connect = fake_connect

    async def main():
        async for item in client.execute_ws("subscription S { s }", operation_name="S", variables=variables, **call_kwargs):
            yielded.append(item)

    try:
        asyncio.run(main())
    except BaseException as exc:  # noqa: BLE001
        ex = bc.exceptions()
        if type(exc) is ex.GraphQLClientGraphQLMultiError:
            outcome = ("multi", [e.message for e in exc.errors])
        elif type(exc) is ex.GraphQLClientInvalidMessageFormat:
            outcome = ("invalid",)
        else:
            outcome = ("other", f"{type(exc).__module__}.{type(exc).__name__}: {exc}"[:200])
    finally:
        m.ws_connect = orig
    return {"connect": connect, "sent": fake.sent, "yielded": yielded, "outcome": outcome}


def check(script, cfg, obs):
    """Compare observables with the reference; returns list of (clause, msg)."""
    bad = []
    _vars, expected_vars = make_variables(cfg["vars"])
    exp = model(script, cfg, expected_vars)
    # connect
    c = obs["connect"]
    if c:
        kw = c["kwargs"]
        hdrs = kw.get("extra_headers", kw.get("additional_headers"))
        want_h = {"Auth": "conf", "Keep": "1"}
        if cfg["call_headers"]:
            want_h.update({"Auth": "call", "Extra": "e"})
        if c["url"] != WS_URL or [str(s) for s in kw.get("subprotocols", [])] != ["graphql-transport-ws"]:
            bad.append(("connect", f"url/subprotocols: {c['url']} {kw.get('subprotocols')}"))
        if dict(hdrs or {}) != want_h:
            bad.append(("connect_headers", f"headers {hdrs} expected {want_h}"))
        if kw.get("origin") != "https://origin.test":
            bad.append(("connect_origin", f"origin {kw.get('origin')!r}"))
    else:
        bad.append(("connect", "socket never opened"))
    try:
        sent = [json.loads(s) for s in obs["sent"]]
    except ValueError:
        return bad + [("sent", f"client sent non-JSON {obs['sent']}")]
    init = {"type": "connection_init"}
    if cfg["init"]:
        init["payload"] = cfg["init"]
    if not sent or sent[0] != init:
        bad.append(("init", f"first frame {sent[:1]} expected {init}"))
    if exp is None:
        if len(sent) > 1:
            bad.append(("before_ack", f"frames sent before any server frame: {sent[1:]}"))
        return bad
    rest = sent[1:]
    subs = [f for f in rest if f.get("type") == "subscribe"]
    pongs = [f for f in rest if f.get("type") == "pong"]
    others = [f for f in rest if f.get("type") not in ("subscribe", "pong")]
    if others:
        bad.append(("sent", f"unexpected frames {others}"))
    if len(subs) != exp["subscribe"]:
        bad.append(("subscribe", f"{len(subs)} subscribe frames, expected {exp['subscribe']} (script {[s[0] for s in script]})"))
    elif subs:
        if rest[0] is not subs[0] and rest[0] != subs[0]:
            bad.append(("subscribe", "subscribe is not the first frame after the ack"))
        s = subs[0]
        pay = s.get("payload", {})
        want_pay = {"query": "subscription S { s }", "operationName": "S"}
        if expected_vars is not None:
            want_pay["variables"] = expected_vars
        if not isinstance(s.get("id"), str) or not s["id"] or pay != want_pay or set(s) != {"id", "type", "payload"}:
            bad.append(("subscribe_payload", f"subscribe {s} expected payload {want_pay}"))
    if len(pongs) != exp["pongs"] or any(p != {"type": "pong"} for p in pongs):
        bad.append(("pong", f"{len(pongs)} pongs for {exp['pongs']} pings (script {[s[0] for s in script]})"))
    if obs["yielded"] != exp["yielded"]:
        bad.append(("yielded", f"yielded {obs['yielded']} expected {exp['yielded']} (script {[s[0] for s in script]})"))
    if obs["outcome"] != exp["outcome"]:
        bad.append(("outcome", f"outcome {obs['outcome']} expected {exp['outcome']} (script {[s[0] for s in script]})"))
    return bad


def nontrivial(script):
    if not script or script[0][0] != "ack":
        return False
    rest = [k for k, _i, _b in script[1:]]
    return len(rest) >= 2 and len(set(rest)) >= 2


def normalise(script, after_complete_ok):
    """frames behind a `complete` are only deliverable (buffered) when that region is explored"""
    out, done = [], False
    for k, i, b in script:
        out.append((k, i, bool(b) and done and after_complete_ok))
        if k == "complete":
            done = True
    return out


# ------------------------------------------------------------------ real loopback server


async def _real_run(variant, script, cfg, shim):
    from websockets.asyncio.server import serve

    label, module, cls_name, _a, tracer = variant
    m = bc.mod(module)
    received = []
    frames = [frame_text(k, i) for k, i, _b in script]
    done = asyncio.Event()

    async def handler(ws):
        try:
            received.append(await asyncio.wait_for(ws.recv(), 0.5))
            if frames:
                await ws.send(frames[0])
                if script[0][0] == "ack":
                    received.append(await asyncio.wait_for(ws.recv(), 0.5))
                for f, (k, _i, _b) in zip(frames[1:], script[1:]):
                    await ws.send(f)
                    if k == "ping":
                        received.append(await asyncio.wait_for(ws.recv(), 0.5))
            await ws.close()
        except Exception:  # noqa: BLE001
            pass
        finally:
            done.set()

    server = await serve(handler, "127.0.0.1", 0, subprotocols=["graphql-transport-ws"])
    port = server.sockets[0].getsockname()[1]
    variables, _ = make_variables(cfg["vars"])
    kwargs = {}
    if tracer is not None:
        kwargs["tracer"] = bc.tracer_of(tracer)
    client = getattr(m, cls_name)(http_client=_http(), ws_url=f"ws://127.0.0.1:{port}/", ws_headers={"Auth": "conf"},
                                  ws_connection_init_payload=cfg["init"], **kwargs)
    orig = m.ws_connect
    if shim:
        def shimmed(url, **kw):
            kw["additional_headers"] = kw.pop("extra_headers", None)
            kw.pop("origin", None)
            return orig(url, **kw)
        m.ws_connect = shimmed
    yielded, outcome = [], ("end",)
    try:
        async for item in client.execute_ws("subscription S { s }", operation_name="S", variables=variables):
            yielded.append(item)
    except BaseException as exc:  # noqa: BLE001
        ex = bc.exceptions()
        if type(exc) is ex.GraphQLClientGraphQLMultiError:
            outcome = ("multi", [e.message for e in exc.errors])
        elif type(exc) is ex.GraphQLClientInvalidMessageFormat:
            outcome = ("invalid",)
        else:
            outcome = ("other", f"{type(exc).__name__}: {exc}"[:200])
    finally:
        m.ws_connect = orig
    try:
        await asyncio.wait_for(done.wait(), 1)
    except asyncio.TimeoutError:
        pass
    server.close()
    await server.wait_closed()
    return {"sent": received, "yielded": yielded, "outcome": outcome}


# ------------------------------------------------------------------ cases


def enumerate_cases(tier):
    maxlen = 5 if tier == "quick" else 6
    idx = 0
    for n in range(0, maxlen + 1):
        for combo in itertools.product(ALPHABET, repeat=n):
            idx += 1
            yield {"kind": "fake", "script": [[k, j, False] for j, k in enumerate(combo)], "cfg": idx % len(CONFIGS),
                   "all_cfg": n <= (3 if tier == "quick" else 4)}
    # supplementary alphabet (error frames without / with an empty payload), short scripts
    for n in range(1, 4):
        for combo in itertools.product(["ack", "next", "ping", "error_bare", "error_empty"], repeat=n):
            if not any(k.startswith("error_") for k in combo):
                continue
            idx += 1
            yield {"kind": "fake", "script": [[k, j, False] for j, k in enumerate(combo)], "cfg": idx % len(CONFIGS), "all_cfg": True}
    # generated subscription methods (sync config is refused by design): yield validated models of each next frame
    for otel in (False, True):
        yield {"kind": "generated", "_isolate": True, "otel": otel}
    # the statement's last sentence: the unmodified client against a real websockets server
    # (while KF-C13-1 is open this lives in the pinned tier only: replays/C13/kf-c13-1.json)
    from vf import findings, gen_common

    kf = findings.open_triggers().get("ws.real_handshake")
    if kf:
        yield {"_excluded": kf}
        return
    yield {"kind": "real", "shim": False, "script": [["ack", 0, False], ["next", 1, False], ["complete", 2, False]], "cfg": 0}


@st.composite
def _drawn(draw):
    d = D(draw)
    n = d.int(1, 30)
    script = []
    kinds = [(8, "next"), (4, "ping"), (2, "pong"), (2, "ack"), (1, "complete"), (1, "error"), (1, "nonjson"),
             (1, "unknown"), (1, "missing"), (1, "nodata")]
    after = d.enabled("ws.frames_after_complete")
    for j in range(n):
        k = "ack" if j == 0 and d.bool(0.9) else d.weighted(kinds)
        script.append([k, j, d.bool(0.5)])
    if d.bool(0.08):
        return {"kind": "real", "shim": True, "script": [s for s in script if True][:8], "cfg": d.int(0, len(CONFIGS) - 1)}
    return {"kind": "fake", "script": script, "cfg": d.int(0, len(CONFIGS) - 1), "after_complete": after, "all_cfg": False}


def strategy(tier):
    return _drawn()


def budget(tier):
    return {"examples": 1600 if tier == "quick" else 20000, "timeout": 120.0}


GEN_SDL = """
type Query { a: Int }
type Subscription { counter(step: Int): Tick!  feed: [Item!] }
type Tick { value: Int! at: String }
interface Item { id: ID! }
type Post implements Item { id: ID! title: String }
type Comment implements Item { id: ID! text: String }
"""
GEN_QUERIES = """
subscription Counter($step: Int) { counter(step: $step) { value at } }
subscription Feed { feed { id ... on Post { title } ... on Comment { text } } }
subscription Search($query: Int) { counter(step: $query) { value at } }
subscription Vars($variables: Int) { counter(step: $variables) { value at } }
"""
GEN_CALLS = {"counter": ({"step": 2}, {"step": 2}), "feed": ({}, None), "search": ({"query": 2}, {"query": 2}),
             "vars": ({"variables": 3}, {"variables": 3})}


def run_generated(case, scratch):
    """generated subscription methods on top of the scripted connection"""
    import importlib

    import pydantic

    from vf import e2e

    pcase = {"sdl": GEN_SDL, "queries": GEN_QUERIES, "config": {"opentelemetry_client": case["otel"]}}
    gen = e2e.generate(pcase, scratch)
    if not gen["ok"]:
        return {"harness_error": "fixed C13 project does not generate: " + gen["msg"]}
    pkg = e2e.import_package(pcase, scratch)
    modname = "async_base_client_open_telemetry" if case["otel"] else "async_base_client"
    m = importlib.import_module(f"{pkg.__name__}.{modname}")
    ex = importlib.import_module(f"{pkg.__name__}.exceptions")
    failures, nts, units = [], [], 0
    payloads = {
        "counter": [{"counter": {"value": 1, "at": None}}, {"counter": {"value": 2, "at": "x"}}],
        "feed": [{"feed": [{"__typename": "Post", "id": "1", "title": "t"}, {"__typename": "Comment", "id": "2", "text": None}]}, {"feed": None}],
        "search": [{"counter": {"value": 5, "at": None}}], "vars": [{"counter": {"value": 6, "at": "y"}}],
    }
    scripts = [
        ("counter", ["ack", "next", "ping", "next", "complete"]), ("feed", ["ack", "next", "next", "complete"]),
        ("counter", ["ack", "next", "error"]), ("feed", ["ack", "ping", "nonjson"]), ("counter", ["next"]),
        ("counter", ["ack", "badnext"]),
        # variables named like the method's own locals (the generator renames its locals, not the caller's arguments)
        ("search", ["ack", "next", "complete"]), ("vars", ["ack", "next", "complete"]),
    ]
    for tracer in ([None] if not case["otel"] else [None, "noop", "rec"]):
        for opname, kinds in scripts:
            units += 1
            frames, nexts = [], iter(payloads[opname])
            expected = []
            for k in kinds:
                if k == "next":
                    d = next(nexts)
                    expected.append(d)
                    frames.append(json.dumps({"type": "next", "id": "x", "payload": {"data": d}}))
                elif k == "badnext":
                    frames.append(json.dumps({"type": "next", "id": "x", "payload": {"data": {"counter": {"value": None}}}}))
                else:
                    frames.append(frame_text(k, 0))
            fake = FakeWS(frames, [False] * len(frames))

            @contextlib.asynccontextmanager
            async def fake_connect(url, **kwargs):
                yield fake

            kw = {"tracer": bc.tracer_of(tracer)} if tracer else {}
            client = e2e.client_class(pkg, pcase)(url="http://x/", http_client=_http(), ws_url=WS_URL, **kw)
            orig = m.ws_connect
            m.ws_connect = fake_connect
            got, outcome = [], "end"

            async def main():
                method = getattr(client, opname)
                async for item in method(**GEN_CALLS[opname][0]):
                    got.append(item)

            try:
                asyncio.run(main())
            except BaseException as exc:  # noqa: BLE001
                outcome = type(exc).__name__
            finally:
                m.ws_connect = orig
            label = f"{opname} {kinds} tracer={tracer}"
            want_outcome = "end"
            if "error" in kinds:
                want_outcome = "GraphQLClientGraphQLMultiError"
            elif "nonjson" in kinds or kinds[0] != "ack":
                want_outcome = "GraphQLClientInvalidMessageFormat"
            elif "badnext" in kinds:
                want_outcome = "ValidationError"
            if outcome != want_outcome:
                failures.append({"clause": "generated_outcome", "sig": want_outcome, "msg": f"{label}: outcome {outcome}, expected {want_outcome}"})
            if kinds[0] == "ack":
                dumped = [g.model_dump(mode="json", by_alias=True) if isinstance(g, pydantic.BaseModel) else repr(g) for g in got]
                if dumped != expected or not all(isinstance(g, pydantic.BaseModel) for g in got):
                    failures.append({"clause": "generated_yield", "sig": "", "msg": f"{label}: yielded {dumped} expected {expected}"})
                sub = [json.loads(x) for x in fake.sent if json.loads(x).get("type") == "subscribe"]
                want_vars = GEN_CALLS[opname][1]
                if len(sub) != 1 or sub[0]["payload"].get("variables") != want_vars or sub[0]["payload"].get("operationName") != opname.capitalize() \
                        or f"subscription {opname.capitalize()}" not in str(sub[0]["payload"].get("query")):
                    failures.append({"clause": "generated_subscribe", "sig": "", "msg": f"{label}: subscribe frames {sub}"})
            nts.append(f"generated:{case['otel']}:{tracer}:{opname}:{'-'.join(kinds)}")
    return {"failures": failures[:4], "units": units, "nt": nts, "features": ["generated_subscription"],
            "sample": {"generated_subscription": True, "otel": case["otel"]}}


def run_case(case, scratch):
    if case["kind"] == "generated":
        return run_generated(case, scratch)
    failures, nts, units = [], [], 0
    script = normalise([tuple(s) for s in case["script"]], case.get("after_complete", False))
    cfgs = list(range(len(CONFIGS))) if case.get("all_cfg") else [case["cfg"]]
    feats = {"len%d" % min(len(script), 6)} | {"frame." + k for k, _i, _b in script}
    if case["kind"] == "real":
        cfg = CONFIGS[case["cfg"]]
        # keep frames after complete out (delivery there is a schedule question)
        cut = []
        for s in script:
            cut.append(s)
            if s[0] == "complete":
                break
        for variant in WS_VARIANTS[:2] if case["shim"] else WS_VARIANTS[:1]:
            units += 1
            try:
                obs = asyncio.run(asyncio.wait_for(_real_run(variant, cut, cfg, case["shim"]), 20))
            except BaseException as exc:  # noqa: BLE001
                return {"harness_error": f"loopback run failed: {exc!r}"}
            if not case["shim"]:
                if obs["outcome"] != ("end",) or obs["yielded"] != [{"n": 1, "s": "v1"}]:
                    failures.append({"clause": "real_handshake", "sig": str(obs["outcome"][-1])[:60],
                                     "msg": f"unmodified client against a real websockets server: {obs}"[:500]})
                nts.append("real-handshake")
                continue
            fake = run_fake(variant, cut, cfg)
            exp = model(cut, cfg, None)
            if exp is None:
                continue
            a = (fake["yielded"], fake["outcome"], [json.loads(x) .get("type") for x in fake["sent"]])
            b = (obs["yielded"], obs["outcome"], [json.loads(x).get("type") for x in obs["sent"]])
            if a != b:
                failures.append({"clause": "fake_vs_real", "sig": "", "msg": f"fake {a} real {b} script {[s[0] for s in cut]}"[:600]})
            if nontrivial(cut):
                nts.append("real:" + hashlib.sha256(repr((cut, case["cfg"], variant[0])).encode()).hexdigest()[:12])
        feats.add("real_loopback")
        return {"failures": failures[:3], "units": units, "nt": nts, "features": sorted(feats),
                "sample": {"real_loopback": True, "script": [s[0] for s in cut]}}
    base = {}
    for ci in cfgs:
        cfg = CONFIGS[ci]
        for variant in WS_VARIANTS:
            units += 1
            obs = run_fake(variant, script, cfg)
            for clause, msg in check(script, cfg, obs):
                failures.append({"clause": clause, "sig": "", "msg": f"{variant[0]} cfg{ci}: {msg}"[:500]})
            key = json.dumps([obs["sent"][:1], [json.loads(s).get("type") if s.startswith("{") else s for s in obs["sent"]],
                              obs["yielded"], obs["outcome"]], default=repr)
            base.setdefault(ci, {})[variant[0]] = key
            if nontrivial(script):
                nts.append(hashlib.sha256(repr((script, ci, variant[0])).encode()).hexdigest()[:14])
        if len(set(base[ci].values())) > 1:
            failures.append({"clause": "differential", "sig": "", "msg": f"variants disagree on {[s[0] for s in script]}: {base[ci]}"[:600]})
    seen, out = set(), []
    for f in failures:
        if f["clause"] not in seen:
            seen.add(f["clause"])
            out.append(f)
    return {"failures": out[:4], "units": units, "nt": nts, "features": sorted(feats),
            "sample": {"script": [s[0] for s in script], "cfg": CONFIGS[case["cfg"]]}}
