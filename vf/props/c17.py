"""C17 - Invalid input is rejected up front, with a typed error and no side effects."""
import copy
import hashlib
import json
import os
import shutil

import toml
from hypothesis import strategies as st

from vf import findings, gen_common
from vf.gen_common import D

ID = "C17"
EXHAUSTIVE = True
EXHAUSTIVE_SUBDOMAIN = (
    "the list of violation classes (configuration constraints, syntax errors, one case per schema-validation rule, one "
    "case per specified operation-validation rule) x strategy x 3 target-directory states is enumerated completely; "
    "values inside a class are drawn"
)
RULE = (
    "a valid base project mutated by exactly one violation, enumerated over all classes x {client, graphqlschema} x "
    "target state {absent, empty, holding a previous generation of a different project}; run through click's CliRunner "
    "in a forked child. Oracle: the exception is an ariadne-codegen exception (of the documented class where one is "
    "documented) whose message names the problem, and a recursive snapshot (path, size, sha256, mtime) of the target "
    "package / target schema file is identical before and after. Controls: drawn valid configurations (with unknown "
    "keys) are accepted and settings parsing does not mutate the configuration dict. "
    "unit = violation case; non-trivial = paired with a pre-populated target; distinct by sha256(case)."
)
ASSUMPTIONS = [
    "documented exception classes: ariadne_codegen.exceptions (InvalidConfiguration, MissingConfiguration, "
    "InvalidGraphqlSyntax, InvalidOperationForSchema, ...), all subclasses of CodeGenException",
    "graphql-core's assert_valid_schema / validate decide that the mutated schema / operation really is invalid",
]

BASE_SDL = """type Query { a: Int obj: Obj list(n: Int!, f: Flag): [Obj!]! u: U iface: I }
type Obj implements I { id: ID! name: String other: Obj }
type Other implements I { id: ID! }
interface I { id: ID! }
union U = Obj | Other
enum Flag { ON OFF }
input In { x: Int! }
type Mutation { do(i: In): Int }
type Subscription { tick: Int tock: Int }
"""
BASE_QUERIES = """query GetA { a obj { id name } }
query ListThem($n: Int!) { list(n: $n) { id ...ObjF } }
fragment ObjF on Obj { name other { id } }
"""
OTHER_SDL = "type Query { zzz: String }\n"
OTHER_QUERIES = "query Zzz { zzz }\n"
BASE_CLIENT_FILE = "class MyBase:\n    pass\n"
# valid layouts of a custom base client file (the class statement need not start in column 0)
BASE_CLIENT_LAYOUTS = {
    "base_plain.py": "import sys\n\n\nclass Other:\n    pass\n\n\nclass LocalBase:\n    def __init__(self, *a, **k):\n        pass\n",
    "base_in_if.py": "import sys\n\nif sys.version_info >= (3, 8):\n\n    class LocalBase:\n        def __init__(self, *a, **k):\n            pass\n\nelse:\n\n    class LocalBase:\n        pass\n",
    "base_in_try.py": "try:\n    import httpx\n\n    class LocalBase:\n        def __init__(self, *a, **k):\n            pass\nexcept ImportError:\n    raise\n",
}

# ------------------------------------------------------------------ violation classes

NAME_OPTIONS = ["target_package_name", "client_name", "client_file_name", "base_client_name", "enums_module_name",
                "input_types_module_name", "fragments_module_name"]
BAD_NAMES = {"nonident": ["1abc", "a-b", "a b", "ä.b", "x!"], "keyword": ["class", "import", "None", "def"], "empty": [""]}


COMPANIONS = [
    ("+url", {"remote_schema_url": "http://x.test/graphql", "remote_schema_headers": {"X-Plain": "v"}}),
    ("+custom_operations", {"enable_custom_operations": True}),
]


def config_violations():
    out = [
        ("cfg.no_schema_source", {"del": ["schema_path"]}, "InvalidConfiguration", ["schema"]),
        ("cfg.missing_schema_path", {"set": {"schema_path": "nope/schema.graphql"}}, "InvalidConfiguration", ["nope/schema.graphql"]),
        ("cfg.missing_queries_path", {"set": {"queries_path": "nope_queries"}}, "InvalidConfiguration", ["nope_queries"]),
        ("cfg.missing_base_client_file", {"set": {"base_client_file_path": "nope_base.py", "base_client_name": "MyBase"}}, "InvalidConfiguration", ["nope_base.py"]),
        ("cfg.missing_file_to_include", {"set": {"files_to_include": ["nope_inc.py"]}}, "InvalidConfiguration", ["nope_inc.py"]),
        # "~" is not expanded by the tool: the literal paths do not exist (the harness's HOME does hold such files)
        ("cfg.missing_file_to_include_tilde", {"set": {"files_to_include": ["~/extra_mod.py"]}}, "InvalidConfiguration", ["~/extra_mod.py"]),
        ("cfg.missing_schema_path_tilde", {"set": {"schema_path": "~/schema.graphql"}}, "InvalidConfiguration", ["~/schema.graphql"]),
        ("cfg.target_path_not_dir", {"set": {"target_package_path": "pyproject.toml"}}, "InvalidConfiguration", ["pyproject.toml"]),
        ("cfg.unknown_include_comments", {"set": {"include_comments": "sometimes"}}, "InvalidConfiguration", ["sometimes"]),
        # a TOML integer is not one of the documented strategies (and not the deprecated boolean either)
        ("cfg.include_comments_int1", {"set": {"include_comments": 1}}, "InvalidConfiguration", ["1"]),
        ("cfg.include_comments_int0", {"set": {"include_comments": 0}}, "InvalidConfiguration", ["0"]),
        ("cfg.scalar_without_type", {"set": {"scalars": {"DT": {"parse": "x.y"}}}}, "MissingConfiguration", ["type"]),
        ("cfg.header_env_unset", {"del": ["schema_path"], "set": {"remote_schema_url": "http://x.test/", "remote_schema_headers": {"Authorization": "$VF_NOT_SET_VAR"}}}, "InvalidConfiguration", ["VF_NOT_SET_VAR"]),
        ("cfg.header_env_empty", {"del": ["schema_path"], "set": {"remote_schema_url": "http://x.test/", "remote_schema_headers": {"Authorization": "$VF_EMPTY_VAR"}}}, "InvalidConfiguration", ["VF_EMPTY_VAR"]),
        ("cfg.base_client_class_absent", {"set": {"base_client_file_path": "my_base.py", "base_client_name": "NotThere"}}, "InvalidConfiguration", ["NotThere"]),
        ("cfg.no_section", {"no_section": True}, "MissingConfiguration", ["ariadne-codegen"]),
        ("cfg.colliding_module_names", {"set": {"enums_module_name": "client"}}, None, ["client"]),
        ("cfg.colliding_module_names2", {"set": {"input_types_module_name": "fragments"}}, None, ["fragments"]),
        ("cfg.queries_path_absent", {"del": ["queries_path"]}, "MissingConfiguration", ["queries_path"]),
    ]
    for opt in NAME_OPTIONS:
        for kind in BAD_NAMES:
            extra = {"base_client_file_path": "my_base.py"} if opt == "base_client_name" else {}
            out.append((f"cfg.name.{opt}.{kind}", {"set": dict({opt: ("NAME", kind)}, **extra)}, "InvalidConfiguration", ["NAME"]))
    return out


SCHEMA_TARGET_VIOLATIONS = [
    ("gs.target_without_suffix", {"set": {"target_file_path": "schema_out"}}, "InvalidConfiguration", ["schema_out"]),
    ("gs.target_txt", {"set": {"target_file_path": "schema_out.txt"}}, "InvalidConfiguration", ["txt"]),
    ("gs.schema_variable_name.nonident", {"set": {"schema_variable_name": "1x"}}, "InvalidConfiguration", ["1x"]),
    ("gs.schema_variable_name.keyword", {"set": {"schema_variable_name": "class"}}, "InvalidConfiguration", ["class"]),
    ("gs.type_map_variable_name.nonident", {"set": {"type_map_variable_name": "a-b"}}, "InvalidConfiguration", ["a-b"]),
    ("gs.type_map_variable_name.keyword", {"set": {"type_map_variable_name": "lambda"}}, "InvalidConfiguration", ["lambda"]),
    ("gs.no_schema_source", {"del": ["schema_path"]}, "InvalidConfiguration", ["schema"]),
    ("gs.missing_schema_path", {"set": {"schema_path": "nope.graphql"}}, "InvalidConfiguration", ["nope.graphql"]),
]

INVALID_SCHEMAS = [
    ("schema.no_query_root", "type Foo { a: Int }\n"),
    ("schema.root_not_object", "schema { query: Q }\ninput Q { a: Int }\n"),
    ("schema.dunder_name", "type Query { __a: Int }\n"),
    ("schema.duplicate_type", "type Query { a: A }\ntype A { x: Int }\ntype A { y: Int }\n"),
    ("schema.duplicate_field", "type Query { a: Int a: String }\n"),
    ("schema.duplicate_argument", "type Query { a(x: Int, x: Int): Int }\n"),
    ("schema.duplicate_enum_value", "type Query { a: E }\nenum E { A A }\n"),
    ("schema.empty_object", "type Query { a: A }\ntype A\n"),
    ("schema.empty_interface", "type Query { a: I }\ninterface I\n"),
    ("schema.empty_union", "type Query { a: U }\nunion U\n"),
    ("schema.empty_enum", "type Query { a: E }\nenum E\n"),
    ("schema.empty_input", "type Query { a(i: In): Int }\ninput In\n"),
    ("schema.union_member_not_object", "type Query { a: U }\ninterface I { x: Int }\nunion U = I\n"),
    ("schema.duplicate_union_member", "type Query { a: U }\ntype A { x: Int }\nunion U = A | A\n"),
    ("schema.iface_field_missing", "type Query { a: A }\ninterface I { x: Int }\ntype A implements I { y: Int }\n"),
    ("schema.iface_field_wrong_type", "type Query { a: A }\ninterface I { x: Int }\ntype A implements I { x: String }\n"),
    ("schema.iface_arg_missing", "type Query { a: A }\ninterface I { x(n: Int): Int }\ntype A implements I { x: Int }\n"),
    ("schema.iface_extra_required_arg", "type Query { a: A }\ninterface I { x: Int }\ntype A implements I { x(n: Int!): Int }\n"),
    ("schema.transitive_iface_missing", "type Query { a: A }\ninterface I { x: Int }\ninterface J implements I { x: Int }\ntype A implements J { x: Int }\n"),
    ("schema.self_implementing_iface", "type Query { a: I }\ninterface I implements I { x: Int }\n"),
    ("schema.input_field_output_type", "type Query { a(i: In): Int }\ntype A { x: Int }\ninput In { a: A }\n"),
    ("schema.output_field_input_type", "type Query { a: A }\ntype A { i: In }\ninput In { x: Int }\n"),
    ("schema.nonnull_input_cycle", "type Query { a(i: In): Int }\ninput In { self: In! }\n"),
    ("schema.unknown_type", "type Query { a: Nope }\n"),
    ("schema.required_deprecated_arg", "type Query { a(n: Int! @deprecated): Int }\n"),
    ("schema.duplicate_directive", "type Query { a: Int }\ndirective @d on FIELD\ndirective @d on FIELD\n"),
]

INVALID_OPERATIONS = [
    ("op.unknown_field", "query Q { nope }"),
    ("op.unknown_argument", "query Q { list(n: 1, zz: 2) { id } }"),
    ("op.unknown_type", "query Q($v: Nope) { a }"),
    ("op.unknown_directive", "query Q { a @nope }"),
    ("op.unknown_fragment", "query Q { obj { ...F } }"),
    ("op.misplaced_directive", "query Q @skip(if: true) { a }"),
    ("op.leaf_with_selection", "query Q { a { b } }"),
    ("op.composite_without_selection", "query Q { obj }"),
    ("op.fragment_cycle", "query Q { obj { ...F } }\nfragment F on Obj { other { ...F } }"),
    ("op.fragment_on_non_composite", "query Q { a }\nfragment F on Int { x }"),
    ("op.impossible_spread", "query Q { obj { ... on Other { id } } }"),
    ("op.duplicate_operation_name", "query Q { a }\nquery Q { obj { id } }"),
    ("op.duplicate_fragment_name", "query Q { obj { ...F } }\nfragment F on Obj { id }\nfragment F on Obj { name }"),
    ("op.duplicate_variable", "query Q($v: Int!, $v: Int!) { list(n: $v) { id } }"),
    ("op.duplicate_argument", "query Q { list(n: 1, n: 2) { id } }"),
    ("op.undefined_variable", "query Q { list(n: $v) { id } }"),
    ("op.unused_variable", "query Q($v: Int) { a }"),
    ("op.variable_type_mismatch", "query Q($v: String!) { list(n: $v) { id } }"),
    ("op.non_input_variable", "query Q($v: Obj) { a }"),
    ("op.wrong_literal", 'query Q { list(n: "x") { id } }'),
    ("op.missing_required_argument", "query Q { list { id } }"),
    ("op.conflicting_fields", "query Q { obj { x: id x: name } }"),
    ("op.non_unique_input_field", "mutation M { do(i: {x: 1, x: 2}) }"),
    ("op.anonymous_not_alone", "{ a }\nquery Q { a }"),
    ("op.subscription_two_roots", "subscription S { tick tock }"),
    ("op.unknown_enum_value", "query Q { list(n: 1, f: MAYBE) { id } }"),
]
SYNTAX = [
    ("syntax.schema", {"schema": "type Query { a: Int \n"}),
    ("syntax.one_of_several_schema_files", {"schema_dir": {"a.graphql": "type Query { a: A }\n", "b.graphql": "type A { x: Int \n"}}),
    ("syntax.queries", {"queries": "query Q { a \n"}),
    # files that are not GraphQL documents on their own although the concatenation of the directory would parse
    ("syntax.schema_dir_definition_split_across_files", {"schema_dir": {"a.graphql": "type Query { a: Int b: B }\ntype B { x: Int\n",
                                                                       "b.graphql": "}\n"}}),
    ("syntax.schema_dir_comment_only_file", {"schema_dir": {"a.graphql": "type Query { a: Int }\n", "b.graphql": "# nothing here yet\n"}}),
    ("syntax.queries_dir_definition_split_across_files", {"queries_dir": {"a.graphql": "query Q { a \n", "b.graphql": "}\n"}}),
    ("syntax.queries_dir_comment_only_file", {"queries_dir": {"a.graphql": "query Q { a }\n", "b.graphql": "# todo\n"}}),
    # blank files: an empty document is a syntax error too
    ("syntax.schema_blank", {"schema": "  \n"}),
    ("syntax.queries_blank", {"queries": ""}),
    ("syntax.queries_dir_blank_file", {"queries_dir": {"a.graphql": "query Q { a }\n", "b.graphql": "\n\n"}}),
    ("syntax.schema_dir_blank_file", {"schema_dir": {"a.graphql": "type Query { a: Int }\n", "b.graphql": ""}}),
]
DIR_STATES = ["absent", "empty", "previous_generation"]


def enumerate_cases(tier):
    open_tr = findings.open_triggers()

    def emit(label, strategy_name, **kw):
        for state in DIR_STATES:
            kf = open_tr.get("c17." + label) or open_tr.get("c17." + label.rsplit(".", 1)[0] + ".*")
            if kf:
                yield {"_excluded": kf}
                continue
            yield dict(kw, kind="violation", label=label, strategy=strategy_name, state=state)

    def companions(label, strategy_name, edit, exc, needles):
        """the same violation next to valid, unrelated options that select other code paths (a second schema source,
        custom operations): a check skipped on one path must not let the violation through"""
        if edit.get("no_section") or "schema_path" in edit.get("del", []):
            return
        for suffix, extra in COMPANIONS:
            if set(extra) & set(edit.get("set", {})) or (strategy_name == "graphqlschema" and "enable_custom_operations" in extra):
                continue
            if label == "cfg.queries_path_absent" and "enable_custom_operations" in extra:
                continue  # documented: queries_path is optional with custom operations - that configuration is valid
            e2 = json.loads(json.dumps(edit))
            e2.setdefault("set", {}).update(extra)
            for state in DIR_STATES[:1]:
                kf = open_tr.get("c17." + label) or open_tr.get("c17." + label.rsplit(".", 1)[0] + ".*")
                if kf:
                    yield {"_excluded": kf}
                    continue
                yield dict(kind="violation", label=label + suffix, strategy=strategy_name, state=state, edit=e2, exc=exc, needles=needles)

    for label, edit, exc, needles in config_violations():
        if ".name." in label:
            kind = label.rsplit(".", 1)[1]
            for bad in BAD_NAMES[kind][: (2 if tier == "quick" else 9)]:
                e2 = json.loads(json.dumps(edit))
                for k, v in e2["set"].items():
                    if isinstance(v, list) and v[:1] == ["NAME"]:
                        e2["set"][k] = bad
                yield from emit(label, "client", edit=e2, exc=exc, needles=[bad])
        else:
            yield from emit(label, "client", edit=edit, exc=exc, needles=needles)
            yield from companions(label, "client", edit, exc, needles)
    for label, edit, exc, needles in SCHEMA_TARGET_VIOLATIONS:
        yield from emit(label, "graphqlschema", edit=edit, exc=exc, needles=needles)
        yield from companions(label, "graphqlschema", edit, exc, needles)
    for label, spec in SYNTAX:
        yield from emit(label, "client", files=spec, exc="InvalidGraphqlSyntax", needles=[])
        if "queries" not in spec and "queries_dir" not in spec:
            yield from emit(label, "graphqlschema", files=spec, exc="InvalidGraphqlSyntax", needles=[])
    for label, sdl in INVALID_SCHEMAS:
        yield from emit(label, "client", files={"schema": sdl, "queries": "query Q { __typename }\n"}, exc=None, needles=[])
        yield from emit(label, "graphqlschema", files={"schema": sdl}, exc=None, needles=[])
    for label, q in INVALID_OPERATIONS:
        yield from emit(label, "client", files={"queries": q + "\n"}, exc="InvalidOperationForSchema", needles=[])


@st.composite
def _controls(draw):
    """valid configurations (with unknown keys at both levels) must be accepted and must not be mutated"""
    d = D(draw)
    section = {}
    for key, pool in (("target_package_name", ["pkg", "my_client", "Gql2"]), ("client_name", ["Client", "Api", "x"]),
                      ("client_file_name", ["client", "api_client"]), ("enums_module_name", ["enums", "en"]),
                      ("input_types_module_name", ["input_types", "inp"]), ("fragments_module_name", ["fragments", "fr"]),
                      ("include_comments", ["none", "stable", "timestamp"]), ("convert_to_snake_case", [True, False]),
                      ("async_client", [True, False]), ("include_all_inputs", [True, False]),
                      ("include_all_enums", [True, False]), ("opentelemetry_client", [True, False])):
        if d.bool(0.4):
            section[key] = d.choice(pool)
    if d.bool(0.3):
        section["scalars"] = {"DT": {"type": "datetime.datetime"}}
    if d.bool(0.5):
        section[d.choice(["unknown_key", "schema_pat", "x-y", "plugins_"])] = d.choice([1, "v", [1], {"a": 1}])
    if d.bool(0.3):
        section["files_to_include"] = ["my_base.py"]
    if d.bool(0.3):
        section["base_client_file_path"] = d.choice(sorted(BASE_CLIENT_LAYOUTS))
        section["base_client_name"] = "LocalBase"
    if d.bool(0.4):
        # header values: literal and environment references (resolved when the settings are read)
        section["remote_schema_headers"] = d.choice([
            {"Authorization": "$VF_SET_VAR"}, {"X-Plain": "v", "Authorization": "$VF_SET_VAR"}, {"X-Plain": "v"},
            {"A": "$VF_SET_VAR", "B": "$VF_SET_VAR2"}])
        section["remote_schema_verify_ssl"] = d.choice([True, False])
    top_extra = {"other-tool": {"x": 1}} if d.bool(0.5) else {}
    return {"kind": "control", "section": section, "top_extra": top_extra, "strategy": d.choice(["client", "client", "graphqlschema"]),
            "state": d.choice(DIR_STATES), "label": "control"}


def strategy(tier):
    return _controls()


def budget(tier):
    return {"examples": 160 if tier == "quick" else 2500, "timeout": 240.0}


# ------------------------------------------------------------------ execution


def snapshot(path):
    out = {}
    if os.path.isfile(path):
        st_ = os.stat(path)
        with open(path, "rb") as fh:
            return {".": (st_.st_size, st_.st_mtime_ns, hashlib.sha256(fh.read()).hexdigest())}
    if not os.path.exists(path):
        return None
    for dp, dn, fn in os.walk(path):
        out[os.path.relpath(dp, path) + "/"] = ("dir",)
        for f in fn:
            full = os.path.join(dp, f)
            st_ = os.stat(full)
            with open(full, "rb") as fh:
                out[os.path.relpath(full, path)] = (st_.st_size, st_.st_mtime_ns, hashlib.sha256(fh.read()).hexdigest())
    return out


def invoke(strategy_name, scratch):
    from click.testing import CliRunner

    from ariadne_codegen.main import main

    os.chdir(scratch)
    return CliRunner().invoke(main, [strategy_name])


def write_base(scratch, sdl=BASE_SDL, queries=BASE_QUERIES):
    for name in ("schema.graphql", "queries.graphql"):
        p = os.path.join(scratch, name)
        if os.path.isdir(p):
            shutil.rmtree(p)
    with open(os.path.join(scratch, "schema.graphql"), "w") as fh:
        fh.write(sdl)
    with open(os.path.join(scratch, "queries.graphql"), "w") as fh:
        fh.write(queries)
    with open(os.path.join(scratch, "my_base.py"), "w") as fh:
        fh.write(BASE_CLIENT_FILE)
    for name, text in BASE_CLIENT_LAYOUTS.items():
        with open(os.path.join(scratch, name), "w") as fh:
            fh.write(text)


def write_config(scratch, section, no_section=False, top_extra=None):
    cfg = dict(top_extra or {})
    if not no_section:
        cfg["tool"] = {"ariadne-codegen": section}
    else:
        cfg["tool"] = {"other": {"x": 1}}
    with open(os.path.join(scratch, "pyproject.toml"), "w") as fh:
        toml.dump(cfg, fh)
    return cfg


def run_case(case, scratch):
    from ariadne_codegen.exceptions import CodeGenException

    os.environ.pop("VF_NOT_SET_VAR", None)
    os.environ["VF_EMPTY_VAR"] = ""
    os.environ["VF_SET_VAR"] = "Bearer tok"
    os.environ["VF_SET_VAR2"] = "second"
    home = os.path.join(scratch, "home")
    os.makedirs(home, exist_ok=True)
    for name, text in (("extra_mod.py", "X = 1\n"), ("schema.graphql", BASE_SDL)):
        with open(os.path.join(home, name), "w") as fh:
            fh.write(text)
    os.environ["HOME"] = home
    strategy_name = case["strategy"]
    base_section = {"schema_path": "schema.graphql"}
    if strategy_name == "client":
        base_section["queries_path"] = "queries.graphql"
    else:
        base_section["target_file_path"] = "schema_out.py"
    # ---- prepare target state with a DIFFERENT project's generation
    pkg_name = "graphql_client"
    section = dict(base_section)
    if case["kind"] == "control":
        section.update(case["section"])
    else:
        edit = case.get("edit") or {}
        for k in edit.get("del", []):
            section.pop(k, None)
        section.update(edit.get("set", {}))
    import keyword as _kw

    if isinstance(section.get("target_package_name"), str) and section["target_package_name"].isidentifier() \
            and not _kw.iskeyword(section["target_package_name"]):
        pkg_name = section["target_package_name"]
    target = os.path.join(scratch, pkg_name) if strategy_name == "client" else os.path.join(
        scratch, section.get("target_file_path", "schema_out.py") if isinstance(section.get("target_file_path"), str) else "schema_out.py")
    state = case["state"]
    if state == "previous_generation":
        write_base(scratch, OTHER_SDL, OTHER_QUERIES)
        prev = dict(base_section)
        if strategy_name == "client":
            prev["target_package_name"] = pkg_name
        else:
            prev["target_file_path"] = os.path.basename(target) if os.path.basename(target).endswith((".py", ".graphql", ".gql")) else "schema_out.py"
            target = os.path.join(scratch, prev["target_file_path"])
        write_config(scratch, prev)
        res = invoke(strategy_name, scratch)
        if res.exception is not None:
            return {"harness_error": f"could not pre-populate the target: {res.exception!r}"}
    elif state == "empty" and strategy_name == "client":
        os.makedirs(target, exist_ok=True)
    # ---- the project under test
    write_base(scratch)
    files = case.get("files") or {}
    if "schema" in files:
        with open(os.path.join(scratch, "schema.graphql"), "w") as fh:
            fh.write(files["schema"])
    if "schema_dir" in files:
        os.unlink(os.path.join(scratch, "schema.graphql"))
        os.makedirs(os.path.join(scratch, "schema.graphql"))
        for n, c in files["schema_dir"].items():
            with open(os.path.join(scratch, "schema.graphql", n), "w") as fh:
                fh.write(c)
    if "queries" in files:
        with open(os.path.join(scratch, "queries.graphql"), "w") as fh:
            fh.write(files["queries"])
    if "queries_dir" in files:
        os.unlink(os.path.join(scratch, "queries.graphql"))
        os.makedirs(os.path.join(scratch, "queries.graphql"))
        for n, c in files["queries_dir"].items():
            with open(os.path.join(scratch, "queries.graphql", n), "w") as fh:
                fh.write(c)
    cfg = write_config(scratch, section, no_section=(case.get("edit") or {}).get("no_section", False), top_extra=case.get("top_extra"))
    before = snapshot(target)
    others_before = sorted(os.listdir(scratch))
    res = invoke(strategy_name, scratch)
    after = snapshot(target)
    others_after = sorted(os.listdir(scratch))
    failures = []
    h = hashlib.sha256(json.dumps(case, sort_keys=True, default=repr).encode()).hexdigest()[:16]
    nts = [h] if state == "previous_generation" else []
    feats = [case["label"].split(".")[0], "state." + state, "strategy." + strategy_name]
    sample = {"label": case["label"], "strategy": strategy_name, "state": state, "section": section,
              "files": {k: (v if isinstance(v, str) else sorted(v)) for k, v in files.items()},
              "outcome": repr(res.exception)[:200] if res.exception else "exit 0"}
    if case["kind"] == "control":
        if res.exception is not None or res.exit_code != 0:
            failures.append({"clause": "valid_rejected", "sig": type(res.exception).__name__,
                             "msg": f"valid configuration {section} refused: {res.exception!r}"[:400]})
        # reading settings never mutates the configuration it is given
        from ariadne_codegen.config import get_client_settings, get_graphql_schema_settings

        cfg2 = copy.deepcopy(cfg)
        try:
            (get_client_settings if strategy_name == "client" else get_graphql_schema_settings)(cfg2)
        except Exception as exc:  # noqa: BLE001
            failures.append({"clause": "valid_rejected", "sig": type(exc).__name__, "msg": f"settings: {exc!r}"[:300]})
        if cfg2 != cfg:
            failures.append({"clause": "config_mutated", "sig": "", "msg": f"configuration dict changed by reading settings: {cfg2} vs {cfg}"[:400]})
        return {"failures": failures, "units": 1, "nt": [h] if section else [], "features": feats + ["control"], "sample": sample}
    exc = res.exception
    if exc is None or isinstance(exc, SystemExit) and res.exit_code == 0:
        failures.append({"clause": "accepted", "sig": case["label"], "msg": f"{case['label']}: invalid input accepted (exit {res.exit_code})"})
    elif not isinstance(exc, CodeGenException):
        failures.append({"clause": "untyped_error", "sig": case["label"] + ":" + type(exc).__name__,
                         "msg": f"{case['label']}: {type(exc).__name__}: {str(exc)[:250]}"})
    else:
        if case.get("exc") and type(exc).__name__ != case["exc"]:
            failures.append({"clause": "wrong_exception_class", "sig": type(exc).__name__,
                             "msg": f"{case['label']}: raised {type(exc).__name__}, documented class is {case['exc']}: {exc}"[:300]})
        for needle in case.get("needles") or []:
            if needle and needle not in str(exc):
                failures.append({"clause": "message_does_not_name_problem", "sig": "",
                                 "msg": f"{case['label']}: message {str(exc)[:200]!r} does not mention {needle!r}"})
    if before != after:
        changed = sorted(set((before or {}).items()) ^ set((after or {}).items()))[:4] if before is not None and after is not None else "created"
        failures.append({"clause": "side_effect", "sig": "created" if before is None else "modified",
                         "msg": f"{case['label']}: target {os.path.basename(target)} changed by a failing run: {str(changed)[:300]}"})
    new = [x for x in others_after if x not in others_before and x != "__pycache__"]
    if new:
        failures.append({"clause": "side_effect", "sig": "new_file", "msg": f"{case['label']}: new entries next to the project: {new}"})
    return {"failures": failures[:4], "units": 1, "nt": nts, "features": feats, "sample": sample}
