"""C05 - Result models are as strict as the schema."""
import copy
import enum
import hashlib
import inspect
import json
import random
import typing

import pydantic
from graphql import (
    GraphQLEnumType,
    GraphQLList,
    GraphQLNonNull,
    GraphQLScalarType,
    build_schema,
    get_named_type,
    is_abstract_type,
    is_composite_type,
    parse,
)

from vf import e2e, findings, opwalk
from vf.gen_project import project_strategy

ID = "C05"
RULE = (
    "C01-style generated projects; for each (operation, conformant response) up to 40 single-point corruptions drawn "
    "without replacement from ALL positions: (a) null at a non-null unconditional position, (b) removal of the key of an "
    "unconditional selected field, (c) JSON kind swap scalar/list/object, (d) __typename replaced by a type that is not "
    "possible at the position - each must raise pydantic.ValidationError (control: the uncorrupted response validates). "
    "Second half: every field of every generated result class is compared with the image of its GraphQL type "
    "(Optional iff nullable or conditional, List iff list, scalar / enum / nested class / Any). "
    "unit = corruption or field; non-trivial = corruption below the root level, inside a list or at an abstract position; "
    "distinct by sha256(operation, response, corruption)."
)
ASSUMPTIONS = [
    "the exemptions (nullable, conditional via @skip/@include, Any for unconfigured custom scalars) are computed from the "
    "schema and the operation by an own static walk, not from the generated model",
    "'wrong kind' means JSON kind (scalar / list / object / null); pydantic lax str->int coercions are not judged",
    "SIMPLE scalar image: String/ID -> str, Int -> int, Float -> float, Boolean -> bool (README)",
]
SCALAR_IMAGE = {"String": str, "ID": str, "Int": int, "Float": float, "Boolean": bool}
# a custom scalar CONFIGURED with a builtin type (no parse / serialize, no import needed): its image is that type
CONFIGURED_IMAGE = {"DateTime": str, "JSONish": str, "Money": str}


def budget(tier):
    return {"examples": 400 if tier == "quick" else 6000, "timeout": 240.0}


def _configure(dd, desc):
    """half of the projects map their custom scalars to str (the reference server then answers strings for them)"""
    if desc.scalars and dd.bool(0.5):
        dd.tag("cfg.scalars_configured_builtin")
        return {"scalars": {n: {"type": "str"} for n in desc.scalars}}, {}
    return {}, {}


def strategy(tier):
    return project_strategy(
        calls_per_op=2 if tier == "quick" else 5,
        doc_kw={"n_ops": (1, 3), "n_frags": (0, 3)},
        schema_kw={"defaults": 0.1},
        ops_kw={"directive_p": 0.2}, config_desc_fn=_configure,
        # KF-C01-10 (fields inside a conditional inline fragment / spread stay required) is open; C05 still draws
        # such fragments and exempts exactly the keys whose conditionality comes from the fragment's directive
        force_features=("sel.directive_on_inline", "sel.directive_on_spread"),
    )


# ------------------------------------------------------------------ corruption points


def type_at(gtype, depth):
    """GraphQL type after descending `depth` list levels"""
    t = gtype
    for _ in range(depth):
        if isinstance(t, GraphQLNonNull):
            t = t.of_type
        t = t.of_type
    return t


class Points:
    """Enumerate single-point corruptions of `data` for an operation, with exemptions from schema + operation."""

    def __init__(self, schema, fragments, rec, scalars_any):
        self.schema = schema
        self.fragments = fragments
        self.rec = rec
        self.scalars_any = scalars_any
        self.points = []  # (kind, path, extra, nontrivial)

    def obj(self, selection_set, runtime, data, path, in_list, abstract_pos):
        keys = opwalk.collect(self.schema, self.fragments, selection_set, runtime)
        for key, info in keys.items():
            node = info["nodes"][0]
            fdef = opwalk.field_def(self.schema, runtime, node)
            nt = len(path) > 0 or in_list or abstract_pos
            if key not in data:
                continue  # skipped by the server through a directive
            if not info["conditional"]:
                self.points.append(("remove", path + (key,), None, nt))
            if fdef is None:  # __typename
                if (path == () or info["fragments"]) and findings.open_triggers().get("typename.root_unchecked"):
                    # explicit __typename at the top level of an operation / fragment definition (KF-C05-1)
                    from vf import gen_common

                    gen_common.EXCLUDED[findings.open_triggers()["typename.root_unchecked"]] += 1
                else:
                    possible = {runtime.name} if not abstract_pos else None
                    self.points.append(("typename", path + (key,), runtime.name, nt))
                if not info["conditional"]:
                    self.points.append(("null", path + (key,), None, nt))
                self.points.append(("kind", path + (key,), "scalar", nt))
                continue
            # the types the OPERATION gives this key (an implementing object may narrow an interface field; a field
            # selected on the interface still has the interface's type): judged against the loosest of them
            self.value(self.loosest(opwalk.static_field_types(self.schema, info, runtime) or [fdef.type]), info, data[key],
                       path + (key,), 0, in_list, cond=info["conditional"])

    @staticmethod
    def loosest(types):
        """of several covariant variants of one field type, the one with the fewest non-null markers"""
        return min(types, key=lambda t: str(t).count("!"))

    def value(self, gtype, info, value, path, depth, in_list, cond):
        t = gtype
        nonnull = isinstance(t, GraphQLNonNull)
        if nonnull:
            t = t.of_type
        named = get_named_type(t)
        nt = True if (len(path) > 1 or in_list or depth > 0) else False
        is_any = isinstance(named, GraphQLScalarType) and named.name in self.scalars_any
        leaf_here = not isinstance(t, GraphQLList)
        # a position typed Any (unconfigured custom scalar) accepts every JSON value, null included
        if nonnull and not (cond and depth == 0) and value is not None and not (is_any and leaf_here):
            self.points.append(("null", path, None, nt or is_abstract_type(named)))
        if value is None:
            return
        if isinstance(t, GraphQLList):
            if not is_any or True:
                self.points.append(("kind", path, "list", nt))
            for i, item in enumerate(value):
                self.value(t.of_type, info, item, path + (i,), depth + 1, True, cond)
            return
        if is_composite_type(named):
            self.points.append(("kind", path, "object", nt or is_abstract_type(named)))
            rt = self.schema.type_map[self.rec["rtypes"][path]]
            sets = opwalk.merged_selection(info["nodes"])
            self.obj(opwalk.Merged(sets, static_type=named.name), rt, value, path, in_list or depth > 0, is_abstract_type(named))
            return
        if is_any:
            return
        self.points.append(("kind", path, "scalar", nt))


def apply(data, point, schema, rng):
    kind, path, extra, _nt = point
    d = copy.deepcopy(data)
    cur = d
    for p in path[:-1]:
        cur = cur[p]
    last = path[-1]
    if kind == "remove":
        del cur[last]
    elif kind == "null":
        cur[last] = None
    elif kind == "typename":
        others = [n for n, t in schema.type_map.items() if not n.startswith("__") and n != extra]
        cur[last] = rng.choice(["Zzz_NoSuchType"] + others[:3]) if others else "Zzz_NoSuchType"
        # must not be a possible type of the position: guaranteed for the fresh name; for schema types see caller
        cur[last] = "Zzz_NoSuchType"
    elif kind == "kind":
        if extra == "scalar":
            cur[last] = rng.choice([[1], {"a": 1}])
        elif extra == "list":
            cur[last] = rng.choice(["x", 5, {"a": 1}])
        else:
            cur[last] = rng.choice(["x", 5, [1, 2]])
    return d


# ------------------------------------------------------------------ annotation image


def strip_annotated(ann):
    while typing.get_origin(ann) is typing.Annotated:
        ann = typing.get_args(ann)[0]
    return ann


def split_optional(ann):
    ann = strip_annotated(ann)
    if typing.get_origin(ann) is typing.Union:
        args = typing.get_args(ann)
        if type(None) in args:
            rest = tuple(a for a in args if a is not type(None))
            inner = rest[0] if len(rest) == 1 else typing.Union[rest]
            return True, inner
    return False, ann


def leaf_classes(ann):
    ann = strip_annotated(ann)
    if typing.get_origin(ann) is typing.Union:
        out = []
        for a in typing.get_args(ann):
            out.extend(leaf_classes(a))
        return out
    return [ann]


class Image:
    def __init__(self, schema, fragments, scalars_any, pkg):
        self.schema = schema
        self.fragments = fragments
        self.scalars_any = scalars_any
        self.pkg = pkg
        self.bad = []
        self.fields = 0
        self.seen = set()

    def fail(self, msg, sig):
        if len(self.bad) < 6:
            self.bad.append((sig, msg))

    def cls(self, cls, selection_set, runtime):
        if (cls, runtime.name) in self.seen:
            return
        self.seen.add((cls, runtime.name))
        if not cls.__pydantic_complete__:
            try:  # nested fragment classes are completed lazily by pydantic; annotations then hold ForwardRefs
                cls.model_rebuild(force=True)
            except Exception:  # noqa: BLE001
                pass
        keys = opwalk.collect(self.schema, self.fragments, selection_set, runtime)
        by_alias = {(f.alias or n): (n, f) for n, f in cls.model_fields.items()}
        for key, info in keys.items():
            if key not in by_alias:
                self.fail(f"{cls.__name__}: no field for response key {key!r}", "missing_field")
                continue
            name, f = by_alias[key]
            self.fields += 1
            fdef = opwalk.field_def(self.schema, runtime, info["nodes"][0])
            if fdef is None:
                continue
            if info["conditional"] and not info["own_conditional"]:
                # conditional only through the directive of an enclosing fragment: KF-C01-10 types it as required
                from vf import gen_common

                gen_common.EXCLUDED[findings.open_triggers().get("sel.directive_on_inline", "KF-C01-10")] += 1
                fragment_conditional = True
            else:
                fragment_conditional = False
            cands = opwalk.static_field_types(self.schema, info, runtime) or [fdef.type]
            cands = list({str(t): t for t in cands + [fdef.type]}.values())
            # accepted images: the static type(s) the operation gives the key, or the runtime object's own (narrower) type
            trial = []
            for t in cands:
                n0 = len(self.bad)
                self.shape(f"{cls.__name__}.{name}", f.annotation, t,
                           None if fragment_conditional else info["conditional"], info, 0)
                trial.append(self.bad[n0:])
                del self.bad[n0:]
                if not trial[-1]:
                    break
            if all(trial):
                self.bad.extend(trial[0])

    def shape(self, where, ann, gtype, conditional, info, depth):
        opt, inner = split_optional(ann)
        nonnull = isinstance(gtype, GraphQLNonNull)
        g = gtype.of_type if nonnull else gtype
        want_opt = (not nonnull) or (bool(conditional) and depth == 0)
        if conditional is None and depth == 0 and nonnull:
            pass  # Optional-ness not judged (see cls)
        elif opt != want_opt:
            self.fail(f"{where}: annotation {ann} is {'Optional' if opt else 'not Optional'} but GraphQL type {gtype} "
                      f"(conditional={conditional}) requires {'Optional' if want_opt else 'non-Optional'}", "optional_mismatch")
        inner = strip_annotated(inner)
        if isinstance(g, GraphQLList):
            if typing.get_origin(inner) not in (list, typing.List):
                self.fail(f"{where}: {ann} is not a List for GraphQL type {gtype}", "list_mismatch")
                return
            self.shape(where + "[]", typing.get_args(inner)[0], g.of_type, False, info, depth + 1)
            return
        if typing.get_origin(inner) in (list, typing.List):
            self.fail(f"{where}: {ann} is a List for non-list GraphQL type {gtype}", "list_mismatch")
            return
        named = g
        if isinstance(named, GraphQLEnumType):
            if not (isinstance(inner, type) and issubclass(inner, enum.Enum) and inner.__name__ == named.name):
                self.fail(f"{where}: {inner} is not the enum class {named.name}", "leaf_mismatch")
            return
        if isinstance(named, GraphQLScalarType):
            if named.name in SCALAR_IMAGE:
                if inner is not SCALAR_IMAGE[named.name]:
                    self.fail(f"{where}: {inner} is not {SCALAR_IMAGE[named.name].__name__} for {named.name}", "leaf_mismatch")
            elif named.name in self.scalars_any:
                if inner is not typing.Any:
                    self.fail(f"{where}: {inner} is not Any for unconfigured custom scalar {named.name}", "leaf_mismatch")
            elif named.name in CONFIGURED_IMAGE:
                if inner is not CONFIGURED_IMAGE[named.name]:
                    self.fail(f"{where}: {inner} is not {CONFIGURED_IMAGE[named.name].__name__}, the configured type of {named.name}", "leaf_mismatch")
            return
        # composite
        classes = leaf_classes(inner)
        if not classes or not all(isinstance(c, type) and issubclass(c, pydantic.BaseModel) for c in classes):
            self.fail(f"{where}: {inner} is not a model class / union of model classes for {named.name}", "leaf_mismatch")
            return
        sets = opwalk.Merged(opwalk.merged_selection(info["nodes"]), static_type=named.name)
        if is_abstract_type(named):
            possible = {t.name: t for t in self.schema.get_possible_types(named)}
            covered = set()
            for c in classes:
                tf = c.model_fields.get("typename__")
                lits = typing.get_args(tf.annotation) if tf is not None else ()
                if not lits:
                    # __typename selected only under an alias: the literal sits on the field standing for that key
                    from graphql import FieldNode

                    for sel in sets.selections:
                        if isinstance(sel, FieldNode) and sel.name.value == "__typename" and sel.alias:
                            for fi in c.model_fields.values():
                                if fi.alias == sel.alias.value or (fi.alias is None and sel.alias.value in c.model_fields
                                                                   and c.model_fields[sel.alias.value] is fi):
                                    if typing.get_origin(fi.annotation) is typing.Literal:
                                        lits = typing.get_args(fi.annotation)
                for lit in lits:
                    if lit in possible:
                        covered.add(lit)
                        self.cls(c, sets, possible[lit])
            if covered != set(possible):
                self.fail(f"{where}: classes {[c.__name__ for c in classes]} cover {sorted(covered)} of possible types {sorted(possible)}",
                          "typename_cover")
        else:
            if len(classes) != 1:
                self.fail(f"{where}: {len(classes)} classes for concrete type {named.name}", "leaf_mismatch")
            self.cls(classes[0], sets, named)


def run_case(case, scratch):
    if case.get("rejected"):
        return {"rejected": case["rejected"]}
    feats = case["features"]
    configured = set((case["config"].get("scalars") or {}))
    sess = e2e.Session(case, scratch, server_kw={"scalar_values": {n: ["s1", "s2", ""] for n in configured}} if configured else None)
    if sess.failure:
        return {"failures": [sess.failure], "units": 1, "features": feats}
    schema = build_schema(case["sdl"])
    doc = parse(case["queries"])
    fragments = opwalk.fragments_of(doc)
    opdefs = opwalk.operations_of(doc)
    scalars_any = set(case["desc"]["scalars"]) - set((case["config"].get("scalars") or {}))
    rng = random.Random(case["server_seed"])
    failures, nts, units, sample = [], [], 0, None
    counters = {"corruptions": 0, "fields_checked": 0}
    # second half: annotation image, once per operation
    img = Image(schema, fragments, scalars_any, sess.pkg)
    for name, op in opdefs.items():
        if op.operation.value == "subscription":
            continue
        method = e2e.method_for(sess.client, name)
        if method is None:
            continue
        hints = typing.get_type_hints(inspect.unwrap(method))
        root_cls = hints.get("return")
        if not (isinstance(root_cls, type) and issubclass(root_cls, pydantic.BaseModel)):
            failures.append({"clause": "return_annotation", "sig": "", "msg": f"{name}: return annotation {root_cls!r}"})
            continue
        img.cls(root_cls, op.selection_set, schema.get_root_type(op.operation))
    for sig, msg in img.bad:
        failures.append({"clause": "annotation_image", "sig": sig, "msg": msg[:400]})
    units += img.fields
    counters["fields_checked"] = img.fields
    if img.fields:
        nts.append("img:" + hashlib.sha256((case["sdl"] + case["queries"]).encode()).hexdigest()[:14])
    # first half: corruptions
    for call in case["calls"]:
        op = sess.ops[call["op"]]
        if op["kind"] == "subscription":
            continue
        r = sess.call(call)
        if r["problem"] or r["rec"] is None or r["rec"]["errors"] or r["exc"] is not None:
            continue  # acceptance problems are C01's
        rec = r["rec"]
        data = rec["data"]
        model = type(r["value"])
        pts = Points(schema, fragments, rec, scalars_any)
        opdef = opdefs[op["name"]]
        pts.obj(opdef.selection_set, schema.get_root_type(opdef.operation), data, (), False, False)
        points = pts.points
        rng.shuffle(points)
        try:
            model.model_validate(copy.deepcopy(data))
        except Exception as exc:  # noqa: BLE001
            failures.append({"clause": "control", "sig": "", "msg": f"{op['name']}: uncorrupted response rejected: {exc}"[:300]})
            continue
        for point in points[:40]:
            bad_data = apply(data, point, schema, rng)
            units += 1
            counters["corruptions"] += 1
            kind, path, extra, nt = point
            if nt:
                nts.append(hashlib.sha256(json.dumps([case["sdl"], op["name"], data, kind, list(path)], sort_keys=True, default=repr).encode()).hexdigest()[:16])
            try:
                obj = model.model_validate(bad_data)
            except pydantic.ValidationError:
                continue
            except Exception as exc:  # noqa: BLE001
                failures.append({"clause": "crash", "sig": type(exc).__name__, "msg": f"{op['name']} {kind} at {list(path)}: {exc!r}"[:300]})
                continue
            ftype = rec["ftypes"].get(tuple(p for p in path if True)[: len(path)], None)
            failures.append({"clause": "accepted_" + kind, "sig": extra if kind == "kind" else "",
                             "msg": f"{op['name']}: corruption '{kind}' at {list(path)} accepted -> {type(obj).__name__}; "
                                    f"type {rec['ftypes'].get(tuple(x for x in path if not isinstance(x, int)) , '?')} "
                                    f"payload {json.dumps(bad_data)[:250]}"})
        if sample is None and points:
            sample = {"operation": op["name"], "response": json.dumps(data)[:300],
                      "corruptions": [[p[0], list(p[1])] for p in points[:6]]}
    from vf import gen_common

    for kid, n in gen_common.EXCLUDED.items():
        counters["excluded:" + kid] = n
    seen, out = set(), []
    for f in failures:
        k = (f["clause"], f["sig"])
        if k not in seen:
            seen.add(k)
            out.append(f)
    return {"failures": out[:6], "units": units, "nt": nts, "features": feats, "sample": sample, "counters": counters}
