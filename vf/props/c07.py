"""C07 - Custom scalars are parsed and serialised exactly once per occurrence."""
import datetime
import hashlib
import importlib
import json

import pydantic
from graphql import GraphQLScalarType, build_schema, get_named_type, parse_type, type_from_ast
from hypothesis import strategies as st

from vf import e2e
from vf.gen_common import D
from vf.gen_ops import spec_to_json
from vf.gen_project import SCALARS_IMPL, base_config, build
from vf.props.c01 import field_path

ID = "C07"
RULE = (
    "hypothesis-generated projects in which the custom scalars Money (configured with type/parse/serialize in every "
    "combination, relative dotted path or deprecated import key) and DateTime (pydantic-native datetime.datetime or "
    "unconfigured) occupy result positions (plain, non-null, lists, nested lists, nested objects, fragments, abstract "
    "positions) and variable positions (top-level, list item, input field, nested input, list of inputs). parse / "
    "serialize are instrumented functions shipped via files_to_include; every raw occurrence in a response is unique. "
    "Oracle: multiset of parse calls == non-null result occurrences and the attribute is parse(raw); multiset of "
    "serialize calls == non-None transmitted argument occurrences and the JSON sent is serialize(value); never a call "
    "with None / UNSET. unit = (operation, call); non-trivial = the scalar occurs inside a list, a nested object or an "
    "input model; distinct by sha256(operation, configuration, response / arguments)."
)
ASSUMPTIONS = [
    "the instrumented parse/serialize log observes user code exactly as a user's functions would",
    "type-only scalars are judged by value round trip (ISO string <-> datetime), unconfigured ones by pass-through",
]
FLOORS = {"op.custom_scalar_leaf": 0.4}


def budget(tier):
    return {"examples": 420 if tier == "quick" else 6000, "timeout": 240.0}


def _hook(d, desc):
    desc.scalar_kinds = {}


@st.composite
def _cases(draw):
    d = D(draw)
    style = d.choice(["relative", "deprecated_import"])
    extras = d.choice([("parse", "serialize"), ("parse",), ("serialize",), ()])
    dt_style = d.choice(["dotted", "none"])
    for e in extras:
        d.tag("scalar.with_" + e)
    d.tag("scalar." + style, "scalar.datetime_" + dt_style)
    prune = d.bool(0.4)
    if prune:
        d.tag("cfg.prune")

    def hook(dd, desc):
        desc.scalar_kinds = {"Money": "money", "Cents": "str"}
        if dt_style == "dotted" and "DateTime" in desc.scalars:
            desc.scalar_kinds["DateTime"] = "datetime"

    def cfg_fn(dd, desc):
        cfg = {"files_to_include": ["scalars_impl.py"], "scalars": {}}
        if style == "relative":
            sc = {"type": ".scalars_impl.MoneyStr"}
            for e in extras:
                sc[e] = f".scalars_impl.{e}_moneystr"
        else:
            sc = {"type": "MoneyStr", "import": ".scalars_impl"}
            for e in extras:
                sc[e] = f"{e}_moneystr"
        cfg["scalars"]["Money"] = sc
        if "Cents" in desc.scalars:
            # another scalar sharing Money's Python type but carrying its own functions (imports per scalar, not per type)
            sc2 = dict(sc)
            for e in ("parse", "serialize"):
                sc2[e] = f".scalars_impl.{e}_cents" if style == "relative" else f"{e}_cents"
            cfg["scalars"]["Cents"] = sc2
            dd.tag("scalar.two_scalars_one_type")
        if prune:
            cfg["include_all_inputs"] = False
            cfg["include_all_enums"] = False
        if dt_style == "dotted" and "DateTime" in desc.scalars:
            cfg["scalars"]["DateTime"] = {"type": "datetime.datetime"}
        return cfg, {"scalars_impl.py": SCALARS_IMPL}

    toplevel_ok = "serialize" not in extras or d.enabled("scalar.serialize_toplevel")
    case = build(
        d, config=base_config(d), calls_per_op=2,
        schema_kw={"scalar_names": ("Money", "DateTime", "Cents"), "n_scalars": (1, 3), "scalar_weight": 4, "input_heavy": d.bool(0.6),
                   "defaults": 0.0, "rich_names": True},
        ops_kw={"var_p": 0.7, "frag_p": 0.4}, doc_kw={"n_ops": (1, 3), "n_frags": (0, 3)},
        desc_hook=hook, config_desc_fn=cfg_fn, omit_p=0.35, subscriptions_if_async=True,
    )
    case.pop("_desc_obj", None)
    if case.get("rejected"):
        return case
    if not toplevel_ok:
        # while KF-C07-1 is open (serialize runs on the top-level argument itself: on UNSET when omitted, on None, on a
        # whole list): a variable typed as a LIST of the scalar is not called at all; a variable typed directly by the
        # scalar always gets a non-null value (the defect's region is omission / None / lists, not plain values)
        k = 0
        for op in case["ops"]:
            mv = [v for v in op["vars"] if v["type"].strip("[]!") == "Money"]
            if any("[" in v["type"] for v in mv):
                case["calls"] = [c for c in case["calls"] if c["op"] != op["name"]]
                op["skip"] = True
                continue
            for c in case["calls"]:
                if c["op"] != op["name"]:
                    continue
                for v in mv:
                    if c["args"].get(v["name"]) is None:
                        k += 1
                        c["args"][v["name"]] = {"$money": 0 if d.bool(0.3) else 1000 + k}
                        d.tag("scalar.toplevel_value_forced")
    case["extras"] = list(extras)
    case["dt_style"] = dt_style
    case["features"] = sorted(d.features)
    return case


def strategy(tier):
    return _cases()


def sent_json(spec, serialize):
    """what the server must receive for a value specification: every Money occurrence as serialize(value)"""
    if isinstance(spec, dict) and "$money" in spec:
        raw = f"m#{spec['$money']}" if spec["$money"] else ""
        return "S:" + raw if serialize else raw
    if isinstance(spec, dict) and "$i" in spec:
        return {k: sent_json(v, serialize) for k, v in spec["f"].items()}
    if isinstance(spec, list):
        return [sent_json(v, serialize) for v in spec]
    return spec_to_json(spec)


def occurrences_in_args(spec, out, inside):
    """(raw, inside_structure) for every transmitted Money occurrence of a value specification"""
    if isinstance(spec, dict) and "$money" in spec:
        out.append((f"m#{spec['$money']}" if spec["$money"] else "", inside))
    elif isinstance(spec, dict) and "$i" in spec:
        for v in spec["f"].values():
            occurrences_in_args(v, out, True)
    elif isinstance(spec, list):
        for v in spec:
            occurrences_in_args(v, out, True)


def walk_result(data, obj, path, rec, schema, out):
    """yield (raw, attribute, nested?) for every Money / DateTime occurrence in the response"""
    if isinstance(data, dict) and isinstance(obj, pydantic.BaseModel):
        by_alias = {(f.alias or n): n for n, f in type(obj).model_fields.items()}
        for k, v in data.items():
            if k in by_alias:
                walk_result(v, getattr(obj, by_alias[k]), path + (k,), rec, schema, out)
        return
    ts = rec["ftypes"].get(field_path(path))
    named = get_named_type(type_from_ast(schema, parse_type(ts))) if ts else None
    if isinstance(data, list) and isinstance(obj, list) and ts and ts.count("[") > len(path) - len(field_path(path)):
        for i, (a, b) in enumerate(zip(data, obj)):
            walk_result(a, b, path + (i,), rec, schema, out)
        return
    if isinstance(named, GraphQLScalarType) and named.name in ("Money", "DateTime") and data is not None:
        out.append((named.name, data, obj, len(path) > 1))


def run_case(case, scratch):
    if case.get("rejected"):
        return {"rejected": case["rejected"]}
    feats = case["features"]
    dt_vals = {"DateTime": ["2020-01-02T03:04:05", "1999-12-31T23:59:59"]} if case["dt_style"] == "dotted" else {}
    dt_vals["Cents"] = ["c1", "c2", ""]
    sess = e2e.Session(case, scratch, server_kw={"unique_scalars": {"Money"}, "scalar_values": dt_vals})
    if sess.failure:
        return {"failures": [sess.failure], "units": 1, "features": feats}
    try:
        impl = importlib.import_module(sess.pkg.__name__ + ".scalars_impl")
    except Exception as exc:  # noqa: BLE001
        return {"failures": [{"clause": "import", "sig": "scalars_impl", "msg": repr(exc)[:300]}], "units": 1, "features": feats}
    schema = build_schema(case["sdl"])
    extras = set(case["extras"])
    failures, nts, units, sample = [], [], 0, None

    def fail(clause, sig, msg):
        failures.append({"clause": clause, "sig": sig, "msg": msg[:500]})

    for call in case["calls"]:
        op = sess.ops[call["op"]]
        units += 1
        del impl.CALLS[:]
        r = sess.call(call)
        if r["problem"]:
            failures.append(r["problem"])
            continue
        log = list(impl.CALLS)
        if r["request"] is None:
            fail("no_request", type(r["exc"]).__name__, f"{op['name']}: {r['exc']!r}")
            continue
        body = json.loads(r["request"].content)
        # ---- arguments
        occ = []
        for var, spec in call["args"].items():
            occurrences_in_args(spec, occ, False)
        ser_calls = [a for k, a in log if k == "serialize"]
        if "serialize" in extras:
            bad_arg = [a for a in ser_calls if not isinstance(a, str)]
            if bad_arg:
                fail("serialize_called_with_non_value", type(bad_arg[0]).__name__,
                     f"{op['name']}: serialize called with {bad_arg[0]!r} (None / UNSET / a container), args={json.dumps(call['args'])[:200]}")
            got = sorted(a for a in ser_calls if isinstance(a, str))
            if got != sorted(raw for raw, _ in occ):
                fail("serialize_count", "", f"{op['name']}: serialize calls {got} but transmitted occurrences are {sorted(raw for raw, _ in occ)}")
        elif ser_calls:
            fail("serialize_count", "unconfigured", f"{op['name']}: serialize called although not configured")
        expected_vars = {k: sent_json(v, "serialize" in extras) for k, v in call["args"].items()}
        if True:
            if op["kind"] == "subscription" and not expected_vars and "variables" not in body:
                pass  # the subscribe payload of graphql-transport-ws may omit an empty variables member
            elif body.get("variables") != expected_vars:
                fail("sent_value", "", f"{op['name']}: variables {json.dumps(body.get('variables'))[:250]} expected {json.dumps(expected_vars)[:250]}")
        # ---- results
        rec = r["rec"]
        if rec is None or rec["errors"]:
            if rec is not None:
                fail("server_refused", rec["errors"][0].split("'")[0][:30], f"{op['name']}: {rec['errors'][0]}"[:300])
            continue
        if r["exc"] is not None:
            fail("acceptance", type(r["exc"]).__name__, f"{op['name']}: {str(r['exc'])[:300]}")
            continue
        found = []
        walk_result(rec["data"], r["value"], (), rec, schema, found)
        money = [(raw, attr, nested) for name, raw, attr, nested in found if name == "Money"]
        parse_calls = [a for k, a in log if k == "parse"]
        if "parse" in extras:
            if any(a is None for a in parse_calls):
                fail("parse_called_with_none", "", f"{op['name']}: parse called with None")
            if sorted(map(str, parse_calls)) != sorted(str(raw) for raw, _a, _n in money):
                fail("parse_count", "", f"{op['name']}: parse calls {sorted(map(str, parse_calls))} but response occurrences are "
                                        f"{sorted(str(raw) for raw, _a, _n in money)}")
            for raw, attr, _n in money:
                if attr != "P:" + raw:
                    fail("parsed_value", "", f"{op['name']}: occurrence {raw!r} reaches user code as {attr!r}")
        else:
            if parse_calls:
                fail("parse_count", "unconfigured", f"{op['name']}: parse called although not configured")
            for raw, attr, _n in money:
                if attr != raw:
                    fail("native_round_trip", "str", f"{op['name']}: type-only occurrence {raw!r} exposed as {attr!r}")
        for name, raw, attr, _n in found:
            if name == "DateTime" and case["dt_style"] == "dotted":
                if not (isinstance(attr, datetime.datetime) and attr.isoformat() == raw):
                    fail("native_round_trip", "", f"{op['name']}: DateTime {raw!r} exposed as {attr!r}")
            elif name == "DateTime" and attr != raw:
                fail("pass_through", "", f"{op['name']}: unconfigured DateTime {raw!r} exposed as {attr!r}")
        nontrivial = any(inside for _r, inside in occ) or any(n for _r, _a, n in money)
        if nontrivial:
            nts.append(hashlib.sha256(json.dumps([case["queries"], op["name"], case["config"].get("scalars"), call["args"], rec["data"]],
                                                 sort_keys=True, default=repr).encode()).hexdigest()[:16])
            if sample is None:
                sample = {"operation": op["name"], "scalars": case["config"]["scalars"], "arguments": call["args"],
                          "response": json.dumps(rec["data"])[:300], "log": [[k, str(a)] for k, a in log][:8]}
    seen, out = set(), []
    for f in failures:
        k = (f["clause"], f["sig"])
        if k not in seen:
            seen.add(k)
            out.append(f)
    return {"failures": out[:6], "units": units, "nt": nts, "features": feats, "sample": sample}
