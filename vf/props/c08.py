"""C08 - Fragments and mixins are honoured as reusable base types."""
import hashlib
import importlib
import json
import os
import subprocess
import sys

import pydantic
from graphql import (
    FieldNode,
    FragmentSpreadNode,
    InlineFragmentNode,
    build_schema,
    get_named_type,
    is_abstract_type,
    is_composite_type,
    parse,
)

from vf import e2e, opwalk
from vf.gen_project import base_config, project_strategy
from vf.gen_schema import canon

ID = "C08"
RULE = (
    "hypothesis-generated fragment graphs (chains, diamonds, fragments shared by several operations, on objects / "
    "interfaces / unions, some with inline fragments, some unused), @mixin on fields and fragment definitions, drawn "
    "definition order in the queries file. Every returned object is walked next to the authored operation: at each "
    "selection set that directly spreads a fragment F without top-level inline fragments whose type condition is the "
    "type the selection set is evaluated for, the object must be an instance of fragments.<F>, F alone must validate the "
    "same sub-payload and F must exist in the fragments module; every @mixin class must be in the __mro__ of exactly the "
    "classes generated for that field / fragment; the fragments module must import in a fresh interpreter. "
    "unit = (operation call, spread site / mixin site); non-trivial = the fragment depends on another fragment, is shared "
    "by >= 2 operations, or sits at an abstract position; distinct by sha256(document, site)."
)
ASSUMPTIONS = [
    "own static walk (vf/opwalk.py) decides which spread sites satisfy the statement's precondition",
    "fragments on unions and fragments with top-level inline fragments are unpacked by design (precondition excludes them)",
]
FLOORS = {"op.fragment_spread": 0.5}
FRESH = os.path.join(os.path.dirname(os.path.dirname(os.path.abspath(__file__))), "fresh_import.py")


def budget(tier):
    return {"examples": 420 if tier == "quick" else 6000, "timeout": 240.0}


def strategy(tier):
    return project_strategy(
        calls_per_op=2, mixins=True,
        doc_kw={"n_ops": (1, 4), "n_frags": (2, 7)},
        ops_kw={"frag_p": 0.85, "var_p": 0.3, "directive_p": 0.05},
        schema_kw={"defaults": 0.0},
        config_fn=lambda d: base_config(d, otel=False),
    )


def mixins_of(node):
    out = []
    for dr in node.directives or ():
        if dr.name.value == "mixin":
            args = {a.name.value: a.value.value for a in dr.arguments}
            out.append(args.get("import"))
    return out


def has_top_level_inline(frag):
    return any(isinstance(s, InlineFragmentNode) for s in frag.selection_set.selections)


class Walker:
    def __init__(self, schema, fragments, fragmod, rec, spread_users):
        self.schema = schema
        self.fragments = fragments
        self.fragmod = fragmod
        self.rec = rec
        self.spread_users = spread_users
        self.bad = []
        self.sites = 0
        self.nt_sites = []
        self.frag_mixins = {name: mixins_of(fr) for name, fr in fragments.items()}

    def fail(self, clause, sig, msg):
        if len(self.bad) < 6:
            self.bad.append({"clause": clause, "sig": sig, "msg": msg[:500]})

    def frag_class(self, name):
        if self.fragmod is None:
            return None
        cands = [v for k, v in vars(self.fragmod).items() if isinstance(v, type) and canon(k) == canon(name)
                 and v.__module__ == self.fragmod.__name__]
        return cands[0] if len(cands) == 1 else None

    def check_spreads(self, selection_set, static_type, runtime, data, obj, path, abstract):
        """immediate fragment spreads of `selection_set`, which is evaluated for `static_type`"""
        for sel in selection_set.selections:
            if isinstance(sel, FragmentSpreadNode):
                fr = self.fragments[sel.name.value]
                if has_top_level_inline(fr) or fr.type_condition.name.value != static_type.name:
                    continue
                from graphql import GraphQLUnionType

                if isinstance(static_type, GraphQLUnionType):
                    continue  # a fragment on a union can only select __typename; the generator unpacks it by design
                if any(d.name.value in ("skip", "include") for d in sel.directives or ()):
                    continue
                name = sel.name.value
                self.sites += 1
                if self.fragments_depend(fr) or len(self.spread_users.get(name, ())) >= 2 or abstract:
                    self.nt_sites.append(f"{name}@{'/'.join(str(p) for p in path if not isinstance(p, int))}")
                cls = self.frag_class(name)
                if cls is None:
                    self.fail("fragment_class_missing", "", f"no class for fragment {name} in the fragments module (spread at {list(path)})")
                    continue
                if not isinstance(obj, cls):
                    self.fail("not_instance", "abstract" if abstract else "concrete",
                              f"object at {list(path)} ({type(obj).__name__}, bases {[b.__name__ for b in type(obj).__mro__[1:4]]}) "
                              f"is not an instance of fragment class {cls.__name__}")
                try:
                    cls.model_validate(data)
                except Exception as exc:  # noqa: BLE001
                    self.fail("fragment_alone_rejects", "", f"{cls.__name__}.model_validate(sub-payload at {list(path)}) raised {str(exc)[:200]}")
            elif isinstance(sel, InlineFragmentNode):
                tc = sel.type_condition.name.value if sel.type_condition else static_type.name
                if opwalk.applies(self.schema, tc, runtime):
                    self.check_spreads(sel.selection_set, self.schema.type_map[tc], runtime, data, obj, path, abstract)

    def fragments_depend(self, fr):
        stack = [fr.selection_set]
        while stack:
            ss = stack.pop()
            for s in ss.selections:
                if isinstance(s, FragmentSpreadNode):
                    return True
                if getattr(s, "selection_set", None) is not None:
                    stack.append(s.selection_set)
        return False

    def obj(self, selection_sets, static_type, runtime, data, obj, path, expected_mixins, abstract):
        if not isinstance(obj, pydantic.BaseModel):
            return
        # mixins: the classes named on this field must be bases of this object's class; no others
        mro = [c.__name__ for c in type(obj).__mro__]
        allowed = set(expected_mixins)
        for name, mix in self.frag_mixins.items():
            c = self.frag_class(name)
            if c is not None and isinstance(obj, c):
                allowed.update(mix)
        for m in expected_mixins:
            self.sites += 1
            if m not in mro:
                self.fail("mixin_missing", "", f"class {type(obj).__name__} at {list(path)} lacks mixin base {m}")
        for m in ("MixinA", "MixinB"):
            if m in mro and m not in allowed:
                self.fail("mixin_leaked", "", f"class {type(obj).__name__} at {list(path)} has mixin base {m} that no @mixin on its field / fragments names")
        for ss in selection_sets:
            self.check_spreads(ss, static_type, runtime, data, obj, path, abstract)
        keys = opwalk.collect(self.schema, self.fragments, opwalk.Merged(selection_sets), runtime)
        by_alias = {(f.alias or n): n for n, f in type(obj).model_fields.items()}
        for key, info in keys.items():
            if key not in data or key not in by_alias:
                continue
            node = info["nodes"][0]
            fdef = opwalk.field_def(self.schema, runtime, node)
            if fdef is None:
                continue
            named = get_named_type(fdef.type)
            if not is_composite_type(named):
                continue
            mix = [m for n in info["nodes"] for m in mixins_of(n)]
            self.value(data[key], getattr(obj, by_alias[key]), path + (key,), info, named, mix)

    def value(self, data, obj, path, info, named, mix):
        if data is None:
            return
        if isinstance(data, list):
            for i, (a, b) in enumerate(zip(data, obj or [])):
                self.value(a, b, path + (i,), info, named, mix)
            return
        rt = self.schema.type_map[self.rec["rtypes"][path]]
        self.obj(opwalk.merged_selection(info["nodes"]), named, rt, data, obj, path, mix, is_abstract_type(named))


def run_case(case, scratch):
    if case.get("rejected"):
        return {"rejected": case["rejected"]}
    feats = case["features"]
    sess = e2e.Session(case, scratch)
    if sess.failure:
        return {"failures": [sess.failure], "units": 1, "features": feats}
    schema = build_schema(case["sdl"])
    doc = parse(case["queries"])
    fragments = opwalk.fragments_of(doc)
    opdefs = opwalk.operations_of(doc)
    # which operations / fragments spread which fragment (for the "shared" non-triviality rule)
    users = {}
    for d in doc.definitions:
        owner = d.name.value if d.name else "?"
        stack = [d.selection_set]
        while stack:
            ss = stack.pop()
            for s in ss.selections:
                if isinstance(s, FragmentSpreadNode):
                    users.setdefault(s.name.value, set()).add(owner)
                elif getattr(s, "selection_set", None) is not None:
                    stack.append(s.selection_set)
    fragmod = None
    fmod_name = sess.pkg.__name__ + "." + case["config"].get("fragments_module_name", "fragments")
    try:
        fragmod = importlib.import_module(fmod_name)
    except ModuleNotFoundError:
        fragmod = None
    except Exception as exc:  # noqa: BLE001
        return {"failures": [{"clause": "fragments_import", "sig": type(exc).__name__, "msg": repr(exc)[:300]}], "units": 1, "features": feats}
    failures, nts, units, sample = [], [], 0, None
    # (3) fresh interpreter import of the package incl. fragments module
    env = dict(os.environ, PYTHONDONTWRITEBYTECODE="1")
    env.pop("PYTHONPATH", None)
    proc = subprocess.run([sys.executable, FRESH, scratch, e2e.package_name(case)], capture_output=True, text=True, timeout=120, env=env, cwd=scratch)
    try:
        rep = json.loads(proc.stdout.strip().splitlines()[-1])
        for p in rep["problems"]:
            if p["clause"] == "import":
                failures.append({"clause": "fresh_import", "sig": p["sig"], "msg": p["msg"]})
    except Exception:  # noqa: BLE001
        return {"harness_error": "fresh_import failed: " + proc.stderr[-300:]}
    # fragment definitions carrying @mixin: their class has the mixin base
    for name, fr in fragments.items():
        mix = mixins_of(fr)
        if not mix or fragmod is None:
            continue
        cls = [v for k, v in vars(fragmod).items() if isinstance(v, type) and canon(k) == canon(name)]
        if len(cls) == 1:
            units += 1
            for m in mix:
                if m not in [c.__name__ for c in cls[0].__mro__]:
                    failures.append({"clause": "mixin_missing", "sig": "fragment", "msg": f"fragment class {cls[0].__name__} lacks mixin base {m}"})
    for call in case["calls"]:
        op = sess.ops[call["op"]]
        if op["kind"] == "subscription":
            continue
        r = sess.call(call)
        if r["problem"] or r["rec"] is None or r["rec"]["errors"] or r["exc"] is not None:
            continue
        opdef = opdefs[op["name"]]
        root = schema.get_root_type(opdef.operation)
        w = Walker(schema, fragments, fragmod, r["rec"], users)
        w.obj([opdef.selection_set], root, root, r["rec"]["data"], r["value"], (), mixins_of(opdef), False)
        units += max(w.sites, 1)
        failures.extend(w.bad)
        for site in w.nt_sites:
            nts.append(hashlib.sha256((case["queries"] + op["name"] + site).encode()).hexdigest()[:16])
        if sample is None and w.nt_sites:
            sample = {"queries": case["queries"][:800], "operation": op["name"], "spread_sites": w.nt_sites[:5]}
    seen, out = set(), []
    for f in failures:
        k = (f["clause"], f["sig"])
        if k not in seen:
            seen.add(k)
            out.append(f)
    return {"failures": out[:6], "units": units, "nt": nts, "features": feats, "sample": sample}
