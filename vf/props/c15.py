"""C15 - Bundled plugins preserve client behaviour apart from their documented change."""
import hashlib
import ast
import importlib
import inspect
import json
import os
import re
import sys
import typing

import pydantic
from graphql import GraphQLNonNull, Undefined, build_schema, get_named_type, is_leaf_type, parse
from hypothesis import strategies as st
from pydantic_core import to_jsonable_python

from vf import e2e, opwalk
from vf.gen_common import D
from vf.gen_project import base_config, build
from vf.props.c09 import _session, generate_forked

ID = "C15"
RULE = (
    "hypothesis-generated projects (operations with one and with several top-level fields, unions, fragments, custom "
    "scalars, arguments) x a drawn subset and order of {ShorterResults, ExtractOperations, ClientForwardRefs, NoReimports, "
    "an identity plugin overriding no hook, two recording plugins}. The plugged package is compared with the unplugged "
    "package of the same inputs (generated in separate processes) on the same scripted responses: import, byte-identical "
    "request bodies, equal results (ShorterResults: exactly the single top-level field of the unplugged result), same "
    "resolved type hints, file-level identity for NoReimports / identity plugin, hook application in configuration order. "
    "unit = (project, plugin list, operation call); non-trivial = >= 2 plugins, or ShorterResults on a union / fragment / "
    "list result; distinct by sha256(inputs, plugin list, call)."
)
ASSUMPTIONS = [
    "differential oracle: the unplugged package of the same inputs is the reference",
    "the number of top-level fields of an operation is counted on the authored operation including fragments (own walk)",
]
P = {
    "shorter": "ariadne_codegen.contrib.shorter_results.ShorterResultsPlugin",
    "extract": "ariadne_codegen.contrib.extract_operations.ExtractOperationsPlugin",
    "fwd": "ariadne_codegen.contrib.client_forward_refs.ClientForwardRefsPlugin",
    "noreimports": "ariadne_codegen.contrib.no_reimports.NoReimportsPlugin",
    "identity": "vf_plugins.IdentityPlugin",
    "rec1": "vf_plugins.RecOne",
    "rec2": "vf_plugins.RecTwo",
    "rec1m": "vf_plugin_one_mod",  # a MODULE entry (every plugin class of the module), equivalent to rec1
}
PLUGIN_ONE_MODULE = '''from ariadne_codegen.plugins.base import Plugin


class RecOneFromModule(Plugin):
    def generate_client_code(self, generated_code: str) -> str:
        return generated_code + "\\n# hook-order: one\\n"
'''
PLUGIN_MODULE = '''from ariadne_codegen.plugins.base import Plugin


class IdentityPlugin(Plugin):
    pass


class RecOne(Plugin):
    def generate_client_code(self, generated_code: str) -> str:
        return generated_code + "\\n# hook-order: one\\n"


class RecTwo(Plugin):
    def generate_client_code(self, generated_code: str) -> str:
        return generated_code + "\\n# hook-order: two\\n"
'''


def budget(tier):
    return {"examples": 260 if tier == "quick" else 4000, "timeout": 400.0}


@st.composite
def _cases(draw):
    d = D(draw)
    cfg = base_config(d, otel=False)
    state = {}

    def hook(dd, desc):
        desc.scalar_kinds = {"Money": "money", "DateTime": "datetime"}
        state["dt_configured"] = dd.bool(0.7)
        if not state["dt_configured"]:
            # left unconfigured: annotated `Any` in the client (a name from `typing` used as an annotation)
            desc.scalar_kinds.pop("DateTime")
        qf = desc.objects[desc.query]["fields"]
        if "DateTime" in desc.scalars and state["dt_configured"] and dd.bool(0.6) and not any(f["name"] == "stampedAt" for f in qf):
            # a root field of the externally typed scalar, selectable on its own (see SoloStamp below)
            qf.append({"name": "stampedAt", "type": dd.choice(["DateTime", "DateTime!", "[DateTime!]"]), "args": []})

    def scalar_cfg(dd, desc):
        from vf.gen_project import SCALARS_IMPL

        scalars, files = {}, {}
        if "Money" in desc.scalars:
            style = dd.choice(["relative", "deprecated_import"])
            scalars["Money"] = ({"type": ".scalars_impl.MoneyStr", "parse": ".scalars_impl.parse_moneystr"} if style == "relative"
                                else {"type": "MoneyStr", "parse": "parse_moneystr", "import": ".scalars_impl"})
            files["scalars_impl.py"] = SCALARS_IMPL
            dd.tag("scalar.money_" + style)
        if "DateTime" in desc.scalars and state["dt_configured"]:
            scalars["DateTime"] = {"type": "datetime.datetime"}
            dd.tag("scalar.datetime")
        elif "DateTime" in desc.scalars:
            dd.tag("scalar.unconfigured_any")
        cfg2 = {"scalars": scalars} if scalars else {}
        if files:
            cfg2["files_to_include"] = ["scalars_impl.py"]
        return cfg2, files

    case = build(
        d, config=cfg, calls_per_op=2,
        schema_kw={"defaults": 0.1, "scalar_names": ("Money", "DateTime"), "n_scalars": (0, 2), "scalar_weight": 2},
        ops_kw={"frag_p": 0.6, "var_p": 0.5, "local_var_names": True, "root_frag_reroll_p": 0.0, "root_family_p": 0.35, "root_only_spreads_p": 0.45},
        doc_kw={"n_ops": (1, 4), "n_frags": (0, 4)}, desc_hook=hook, config_desc_fn=scalar_cfg,
        subscriptions_if_async=True,
    )
    case.pop("_desc_obj", None)
    if case.get("rejected"):
        return case
    if d.bool(0.45):
        # an operation whose ONLY top-level field is a leaf (ShorterResults then returns the bare scalar / enum value, and
        # the client module itself needs whatever that annotation names - e.g. `datetime` for a configured scalar)
        root = build_schema(case["sdl"]).query_type
        leaves = [(n, f) for n, f in root.fields.items() if is_leaf_type(get_named_type(f.type))
                  and not any(isinstance(a.type, GraphQLNonNull) and a.default_value is Undefined for a in f.args.values())]
        external = [n for n, f in leaves if get_named_type(f.type).name == "DateTime"]  # configured as datetime.datetime
        other = [n for n, f in leaves if n not in external]
        picks = []
        if external and d.bool(0.8):
            picks.append(("SoloStamp", d.choice(external)))
            d.tag("op.single_custom_scalar_root_field")
        if other and (not picks or d.bool(0.5)):
            picks.append(("SoloLeaf", d.choice(other)))
        taken = {o["name"] for o in case["ops"]}
        for opname, n in picks:
            if opname in taken:
                continue
            case["queries"] += f"\nquery {opname} {{ {n} }}\n"
            case["ops"].append({"name": opname, "kind": "query", "vars": []})
            case["calls"].append({"op": opname, "args": {}})
            d.tag("op.single_leaf_root_field")
    if d.bool(0.3):
        # a chain of fragments on the query root, spread by an operation that selects nothing itself: the result class
        # has NO own field, its base ONE, that one's base the rest (ShorterResults has to count inherited fields at
        # every depth before it unwraps)
        root = build_schema(case["sdl"]).query_type
        leaves = [n for n, f in root.fields.items() if is_leaf_type(get_named_type(f.type)) and not f.args]
        taken = {o["name"] for o in case["ops"]} | set(re.findall(r"fragment (\w+) on", case["queries"]))
        if len(leaves) >= 2 and not taken & {"SoloChain", "SoloTop", "SoloMid", "SoloBase"}:
            picked = d.sample(leaves, d.int(2, min(3, len(leaves))))
            depth3 = len(picked) == 3
            defs = [f"fragment SoloBase on {root.name} {{ {picked[-1]} }}"]
            if depth3:
                defs.append(f"fragment SoloMid on {root.name} {{ {picked[1]} ...SoloBase }}")
            defs.append(f"fragment SoloTop on {root.name} {{ {picked[0]} ...{'SoloMid' if depth3 else 'SoloBase'} }}")
            defs.append("query SoloChain { ...SoloTop }")
            case["queries"] += "\n" + "\n".join(d.shuffle(defs)) + "\n"
            case["ops"].append({"name": "SoloChain", "kind": "query", "vars": []})
            case["calls"].append({"op": "SoloChain", "args": {}})
            d.tag("op.root_fragment_chain_only")
    case["server_kw"] = {"unique_scalars": ["Money"], "scalar_values": {"DateTime": ["2020-01-02T03:04:05", "1999-12-31T23:59:59"]}}
    mode = d.weighted([(4, "subset"), (1, "identity_alone"), (1, "noreimports_alone"), (1, "order")])
    if mode == "identity_alone":
        plugins = ["identity"]
    elif mode == "noreimports_alone":
        plugins = ["noreimports"]
    elif mode == "order":
        plugins = d.shuffle([d.choice(["rec1", "rec1m"]), "rec2"]) + d.sample(["shorter", "extract"], d.int(0, 1))
        plugins = d.shuffle(plugins)
    else:
        plugins = d.shuffle(d.sample(["shorter", "extract", "fwd", "noreimports", "identity"], d.int(1, 4)))
    if "fwd" in plugins and "shorter" in plugins and not d.enabled("plugins.fwd_with_shorter"):
        plugins = [x for x in plugins if x != "fwd"]
    case["plugins"] = plugins
    for p in plugins:
        d.tag("plugin." + p)
    if len(plugins) >= 2:
        d.tag("plugins>=2")
    case["files"]["vf_plugins.py"] = PLUGIN_MODULE
    case["files"]["vf_plugin_one_mod.py"] = PLUGIN_ONE_MODULE
    case["features"] = sorted(d.features)
    return case


def strategy(tier):
    return _cases()


def dump(value):
    """JSON view of whatever a method returns (model, list, enum, scalar); goes through model_dump so that lazily
    completed pydantic classes are handled like a user's call would"""
    import enum as _enum

    if isinstance(value, pydantic.BaseModel):
        return value.model_dump(mode="json", by_alias=True)
    if isinstance(value, (list, tuple)):
        return [dump(v) for v in value]
    if isinstance(value, dict):
        return {k: dump(v) for k, v in value.items()}
    if isinstance(value, _enum.Enum):
        return value.value
    return to_jsonable_python(value)


def norm_hints(method, pkg, other_name):
    """resolved type hints of a client method as strings, package names normalised.  The namespace is what a type
    checker sees: the client module's own globals plus the imports of its `if TYPE_CHECKING:` blocks, EXECUTED here
    (an import there that does not resolve raises - e.g. a wrong relative level); nothing else is added, so names like
    typing.Any or datetime have to be resolvable from the client module itself."""
    mod = sys.modules[method.__func__.__module__] if hasattr(method, "__func__") else sys.modules[method.__module__]
    ns = dict(vars(mod))
    tree = ast.parse(open(mod.__file__).read())
    for node in tree.body:
        if isinstance(node, ast.If) and "TYPE_CHECKING" in ast.dump(node.test):
            for stmt in node.body:
                if isinstance(stmt, (ast.ImportFrom, ast.Import)):
                    code = compile(ast.Module(body=[stmt], type_ignores=[]), mod.__file__, "exec")
                    scope = {"__name__": mod.__name__, "__package__": mod.__package__}
                    exec(code, scope)  # noqa: S102  generated import statement of the package under test
                    ns.update({k: v for k, v in scope.items() if not k.startswith("__")})
    f = method.__func__ if hasattr(method, "__func__") else method
    hints = typing.get_type_hints(f, globalns=ns)
    return {k: repr(v).replace(pkg.__name__ + ".", "PKG.") for k, v in hints.items()}


def run_case(case, scratch):
    if case.get("rejected"):
        return {"rejected": case["rejected"]}
    feats = case["features"]
    plugins = case["plugins"]
    u = json.loads(json.dumps(case))
    u["config"] = dict(case["config"], target_package_name="pkg_u")
    p = json.loads(json.dumps(case))
    p["config"] = dict(case["config"], target_package_name="pkg_p", plugins=[P[x] for x in plugins])
    for v in (u, p):
        if generate_forked(v, scratch) == 2:
            return {"harness_error": "generation subprocess crashed"}
    if os.path.exists(os.path.join(scratch, "gen_error_pkg_u.json")):
        e = json.load(open(os.path.join(scratch, "gen_error_pkg_u.json")))
        return {"rejected": "unplugged generation fails (C04 territory): " + e["msg"][:100]}
    failures, nts, units, sample = [], [], 0, None

    def fail(clause, sig, msg):
        failures.append({"clause": clause, "sig": sig, "msg": msg[:500]})

    if os.path.exists(os.path.join(scratch, "gen_error_pkg_p.json")):
        e = json.load(open(os.path.join(scratch, "gen_error_pkg_p.json")))
        return {"failures": [{"clause": "plugged_generation_fails", "sig": e["sig"] + ":" + "+".join(sorted(plugins)),
                              "msg": f"plugins {plugins}: {e['type']}: {e['msg']}"}], "units": 1, "features": feats}
    sys.path.insert(0, scratch)
    udir, pdir = os.path.join(scratch, "pkg_u"), os.path.join(scratch, "pkg_p")
    # file level
    ufiles = {f: open(os.path.join(udir, f), encoding="utf-8").read().replace("pkg_u", "PKG") for f in os.listdir(udir) if f.endswith(".py")}
    pfiles = {f: open(os.path.join(pdir, f), encoding="utf-8").read().replace("pkg_p", "PKG") for f in os.listdir(pdir) if f.endswith(".py")}
    only_passive = set(plugins) <= {"identity", "noreimports"}
    if only_passive:
        for f, text in ufiles.items():
            if f == "__init__.py" and "noreimports" in plugins:
                continue
            if pfiles.get(f) != text:
                fail("file_changed", f if f in ("client.py", "__init__.py") else "other",
                     f"plugins {plugins}: file {f} differs from the unplugged package")
        if set(pfiles) != set(ufiles):
            fail("file_set_changed", "", f"plugins {plugins}: files {sorted(set(pfiles) ^ set(ufiles))}")
    if "noreimports" in plugins:
        import ast

        body = ast.parse(pfiles.get("__init__.py", "")).body
        if body:
            fail("noreimports_init_not_empty", "", f"__init__.py still has {len(body)} statements")
    if ("rec1" in plugins or "rec1m" in plugins) and "rec2" in plugins:
        tags = re.findall(r"# hook-order: (\w+)", pfiles.get("client.py", ""))
        want = ["one" if x in ("rec1", "rec1m") else "two" for x in plugins if x in ("rec1", "rec1m", "rec2")]
        units += 1
        if tags != want:
            fail("hook_order", "", f"plugins {plugins}: generate_client_code hooks applied in order {tags}, configuration order is {want}")
    # behaviour
    try:
        us = _session(u, scratch)
    except BaseException as exc:  # noqa: BLE001
        return {"rejected": f"unplugged package does not import: {exc!r}"[:200]}
    try:
        if "noreimports" in plugins:
            importlib.import_module("pkg_p.client")
        ps = _session(p, scratch)
    except BaseException as exc:  # noqa: BLE001
        return {"failures": [{"clause": "plugged_import", "sig": type(exc).__name__ + ":" + "+".join(sorted(plugins)),
                              "msg": f"plugins {plugins}: {exc!r}"[:400]}], "units": 1, "features": feats}
    schema = build_schema(case["sdl"])
    doc = parse(case["queries"])
    fragments = opwalk.fragments_of(doc)
    opdefs = opwalk.operations_of(doc)
    for call in case["calls"]:
        op = us.ops[call["op"]]  # subscriptions: one event from a scripted socket stands for the result
        units += 1
        ru = us.call(call)
        if ru["problem"] or ru["exc"] is not None or ru["request"] is None or ru["rec"] is None or ru["rec"]["errors"]:
            continue  # the unplugged client itself has a problem here: not this property's business
        ps.forced_response = {"data": ru["rec"]["data"]}  # the same scripted response
        rp = ps.call(call)
        label = f"plugins {plugins} {op['name']}"
        if rp["problem"]:
            fail("plugged_call_problem", rp["problem"]["clause"], f"{label}: {rp['problem']['msg']}")
            continue
        def canon_body(req):
            from graphql import print_ast

            b = json.loads(req.content)
            b["query"] = print_ast(parse(b["query"]))  # GraphQL-insignificant whitespace (indentation of the inline string) is not judged
            return b

        if rp["request"] is None or canon_body(rp["request"]) != canon_body(ru["request"]):
            fail("request_differs", "", f"{label}: request body differs: {rp['request'].content[:200] if rp['request'] is not None else rp['exc']!r} "
                                        f"vs {ru['request'].content[:200]}")
            continue
        if rp["exc"] is not None:
            fail("plugged_rejects_response", type(rp["exc"]).__name__, f"{label}: {str(rp['exc'])[:300]}")
            continue
        keys = opwalk.collect(schema, fragments, opdefs[op["name"]].selection_set, schema.get_root_type(opdefs[op["name"]].operation))
        uval = ru["value"]
        udump = dump(uval)
        pdump = dump(rp["value"])
        nontrivial = len(plugins) >= 2
        if "shorter" in plugins and len(keys) == 1:
            key = next(iter(keys))
            by_alias = {(f.alias or n): n for n, f in type(uval).model_fields.items()}
            expected = dump(getattr(uval, by_alias[key]))
            selected_twice = len(keys[key]["nodes"]) > 1
            if selected_twice and pdump == udump:
                pass  # one response key requested through two selections (directly and via a fragment): the statement
                # does not say whether that is "a single top-level field"; both behaviours are accepted
            elif pdump != expected or isinstance(rp["value"], type(uval)):
                fail("shorter_result", "", f"{label}: returned {json.dumps(pdump, default=repr)[:200]}, the single top-level field {key!r} of the unplugged result is "
                                           f"{json.dumps(expected, default=repr)[:200]}")
            if isinstance(expected, (list, dict)) or "op.fragment_spread" in feats or "op.abstract_position" in feats:
                nontrivial = True
        else:
            if pdump != udump:
                fail("result_differs", "shorter" if "shorter" in plugins else "", f"{label}: result {json.dumps(pdump, default=repr)[:200]} vs unplugged {json.dumps(udump, default=repr)[:200]}")
            elif "shorter" in plugins and type(rp["value"]).__name__ != type(uval).__name__:
                fail("result_differs", "type", f"{label}: returns {type(rp['value']).__name__} instead of {type(uval).__name__} for {len(keys)} top-level fields")
        if "fwd" in plugins and "shorter" not in plugins:
            try:
                hu, hp = norm_hints(ru["method"], us.pkg, "pkg_u"), norm_hints(rp["method"], ps.pkg, "pkg_p")
                if hu != hp:
                    fail("annotations_differ", "", f"{label}: resolved hints {hp} vs unplugged {hu}")
            except Exception as exc:  # noqa: BLE001
                fail("annotations_unresolvable", type(exc).__name__, f"{label}: {exc!r}")
        if nontrivial:
            nts.append(hashlib.sha256(json.dumps([case["queries"], plugins, call], sort_keys=True).encode()).hexdigest()[:16])
            if sample is None:
                sample = {"plugins": plugins, "operation": op["name"], "queries": case["queries"][:500]}
    seen, out = set(), []
    for f in failures:
        k = (f["clause"], f["sig"])
        if k not in seen:
            seen.add(k)
            out.append(f)
    return {"failures": out[:6], "units": units, "nt": nts, "features": feats, "sample": sample}
