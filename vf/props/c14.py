"""C14 - The custom operation builder emits valid, faithful, history-free documents."""
import hashlib
import importlib
import inspect
import json
import os

from graphql import (
    FieldNode,
    GraphQLList,
    GraphQLNonNull,
    InlineFragmentNode,
    OperationDefinitionNode,
    Undefined,
    VariableNode,
    build_schema,
    assert_valid_schema,
    get_named_type,
    is_abstract_type,
    is_composite_type,
    parse,
    print_ast,
    specified_rules,
    validate,
)
from graphql.execution.values import get_variable_values
from hypothesis import strategies as st

from vf import e2e
from vf.gen_common import D
from vf.gen_ops import ALIASES, gen_value, spec_to_json
from vf.gen_project import base_config
from vf.gen_schema import canon, gen_schema, render_sdl
from vf.props.c01 import values_equal

ID = "C14"
RULE = (
    "hypothesis-generated schemas (camelCase field / argument names, arguments of every wrapper shape over scalars, enums "
    "and inputs, interfaces, unions, Query and Mutation) with enable_custom_operations x {sync, async} x snake on/off; "
    "a case is a HISTORY of 1-4 intent trees (top-level fields incl. the same field twice under aliases, arguments "
    "value/None, sub-fields to depth 4, .on(Type) at abstract positions) realised by navigating the generated builder "
    "classes and sent through client.query()/mutation() on ONE imported package, deliberately re-using class-level field "
    "objects with and without aliases. Oracle per built operation: parse + full validation, every variable declared once "
    "with the schema's exact argument type and bound to the caller's value, structure equal to the intent tree (GraphQL "
    "names, aliases only where intended, None arguments absent, nothing left over), reference variable coercion, and "
    "equality with the request a fresh process produces for the same intent tree. "
    "unit = built operation; non-trivial = depth >= 2 with an argument below the top level, a list-typed argument, an "
    "alias or an inline fragment, or (histories) >= 2 operations touching the same field; distinct by sha256(schema, history prefix)."
)
ASSUMPTIONS = [
    "graphql-core validate / get_variable_values are the reference; the expected structure is computed from the intent tree",
    "history freedom is checked differentially against a freshly forked child that builds only that one operation",
]


def budget(tier):
    return {"examples": 360 if tier == "quick" else 5000, "timeout": 300.0}


# ------------------------------------------------------------------ intent trees


def gen_field(d, schema, desc, parent, fname, depth, used_keys, opts):
    fdef = parent.fields[fname]
    named = get_named_type(fdef.type)
    node = {"name": fname, "alias": None, "args": {}, "sub": [], "on": {}}
    key = fname
    from graphql import GraphQLUnionType

    # below the root a field without arguments whose type is a leaf or a union is a CLASS-LEVEL object
    # shared by every expression; .alias() / .on() mutate it
    is_attr = depth >= 1 and not fdef.args and (not is_composite_type(named) or isinstance(named, GraphQLUnionType))
    if is_attr and is_composite_type(named) and not d.enabled("builder.singleton_state"):
        return None
    if d.bool(0.25) and (not is_attr or d.enabled("builder.singleton_state")):
        node["alias"] = d.choice([a for a in ALIASES if a.isidentifier()][:10])
        key = node["alias"]
        d.tag("builder.alias")
    if canon(key) in used_keys:
        if is_attr and not d.enabled("builder.singleton_state"):
            return None
        node["alias"] = f"dup{len(used_keys)}"
        key = node["alias"]
    used_keys.add(canon(key))
    for aname, arg in fdef.args.items():
        required = isinstance(arg.type, GraphQLNonNull) and arg.default_value is Undefined
        is_list = "[" in str(arg.type)
        if is_list and not d.enabled("builder.list_args"):
            if required:
                return None
            node["args"][aname] = None
            continue
        if depth >= 1 and not d.enabled("builder.nested_args"):
            if required:
                return None
            node["args"][aname] = None
            continue
        if required or d.bool(0.6):
            node["args"][aname] = {"spec": gen_value(d, desc, str(arg.type) if required else str(arg.type).rstrip("!") + "!", ctx="barg"),
                                   "type": str(arg.type)}
            d.tag("builder.arg")
            if is_list:
                d.tag("builder.list_arg")
            if depth >= 1:
                d.tag("builder.nested_arg")
        else:
            node["args"][aname] = None
            d.tag("builder.none_arg")
    if is_composite_type(named):
        if depth >= opts["max_depth"]:
            return None
        keys = set()
        if hasattr(named, "fields"):
            names = list(named.fields)
            picked = d.sample(names, d.int(1, min(3, len(names))))
            # the same field a second time under another response key (fields built by a METHOD call - arguments or an
            # object type - are fresh objects each time; class-level attribute objects are left alone)
            again = [n for n in picked if named.fields[n].args or
                     (is_composite_type(get_named_type(named.fields[n].type)) and not isinstance(get_named_type(named.fields[n].type), GraphQLUnionType))]
            if again and d.bool(0.3):
                picked = picked + [d.choice(again)]
            for sub in picked:
                sn = gen_field(d, schema, desc, named, sub, depth + 1, keys, opts)
                if sn is not None:
                    node["sub"].append(sn)
            if len({x["name"] for x in node["sub"]}) < len(node["sub"]):
                d.tag("builder.same_field_twice_nested")
        if is_abstract_type(named) and d.bool(0.7):
            for t in d.sample(sorted(schema.get_possible_types(named), key=lambda x: x.name), d.int(1, 2)):
                subs = []
                tkeys = keys  # response keys are unique across the whole level (no type conflicts between fragments)
                for sub in d.sample(list(t.fields), d.int(1, min(2, len(t.fields)))):
                    sn = gen_field(d, schema, desc, t, sub, depth + 1, tkeys, opts)
                    if sn is not None:
                        subs.append(sn)
                if subs:
                    node["on"][t.name] = subs
                    d.tag("builder.inline_fragment")
        if not node["sub"] and not node["on"]:
            return None
        if len(node["sub"]) >= 2 and d.bool(0.3):
            node["fields_split"] = d.int(1, len(node["sub"]) - 1)
            d.tag("builder.fields_called_twice")
        if depth >= 1:
            d.tag("builder.depth>=2")
    return node


@st.composite
def _cases(draw):
    d = D(draw)
    desc = gen_schema(d, rich_names=False, custom_scalars=False, defaults=0.0, input_heavy=d.bool(0.5), mutation=True)
    sdl = render_sdl(desc)
    try:
        schema = build_schema(sdl)
        assert_valid_schema(schema)
    except Exception as exc:  # noqa: BLE001
        return {"rejected": f"schema: {exc}"[:300]}
    cfg = base_config(d, otel=False)
    cfg["enable_custom_operations"] = True
    history = []
    for step in range(d.int(1, 4)):
        root_kind = "mutation" if schema.mutation_type and d.bool(0.3) else "query"
        root = schema.mutation_type if root_kind == "mutation" else schema.query_type
        keys = set()
        fields = []
        for fname in d.sample(list(root.fields), d.int(1, 3)):
            node = gen_field(d, schema, desc, root, fname, 0, keys, {"max_depth": 3})
            if node is not None:
                fields.append(node)
        if d.bool(0.2) and fields:
            again = gen_field(d, schema, desc, root, fields[0]["name"], 0, keys, {"max_depth": 3})
            if again is not None:
                fields.append(again)
                d.tag("builder.same_field_twice")
        reuse = {}
        if fields and history and d.bool(0.45):
            # the SAME builder object as in an earlier operation, at a drawn (usually different) top-level position
            cands = [(s, j) for s, h in enumerate(history) if h["kind"] == root_kind for j, f in enumerate(h["fields"])
                     if (f["alias"] or f["name"]) not in {g["alias"] or g["name"] for g in fields}]
            if cands:
                s0, j0 = d.choice(cands)
                pos = d.int(0, len(fields))
                fields.insert(pos, json.loads(json.dumps(history[s0]["fields"][j0])))
                reuse[str(pos)] = [s0, j0]
                d.tag("builder.object_reuse")
                if pos != j0:
                    d.tag("builder.object_reuse_other_index")
        if fields:
            history.append({"kind": root_kind, "name": f"Op{step}", "fields": fields, "reuse": reuse})
    if not history:
        return {"rejected": "no buildable operation"}
    if len(history) >= 2:
        d.tag("builder.history>=2")
    return {"sdl": sdl, "queries": None, "config": cfg, "history": history,
            "desc": {"enums": desc.enums, "inputs": {k: [list(f) for f in v] for k, v in desc.inputs.items()}, "scalars": []},
            "features": sorted(d.features)}


def strategy(tier):
    return _cases()


# ------------------------------------------------------------------ realisation


def find_attr(obj_or_cls, gql_name):
    cls = obj_or_cls if isinstance(obj_or_cls, type) else type(obj_or_cls)
    names = [n for n in dir(cls) if not n.startswith("_") and canon(n) == canon(gql_name) and n not in ("fields", "alias", "on")]
    exact = [n for n in names if n == gql_name]
    if exact:
        names = exact
    if len(names) != 1:
        raise LookupError(f"{cls.__name__} has attributes {names} for GraphQL field {gql_name!r}")
    return getattr(cls, names[0])


def realise(pkg, mods, parent_cls, node):
    attr = find_attr(parent_cls, node["name"])
    if callable(attr) and not hasattr(attr, "_field_name"):
        params = inspect.signature(attr).parameters
        kwargs = {}
        for aname, spec in node["args"].items():
            ps = [p for p in params if canon(p) == canon(aname)]
            if len(ps) != 1:
                raise LookupError(f"{parent_cls.__name__}.{node['name']} has parameters {ps} for argument {aname!r}")
            if spec is not None:
                kwargs[ps[0]] = e2e.spec_to_python(pkg, spec["spec"])
            elif params[ps[0]].default is inspect.Parameter.empty:
                kwargs[ps[0]] = None
        obj = attr(**kwargs)
    else:
        if any(v is not None for v in node["args"].values()):
            raise LookupError(f"{parent_cls.__name__}.{node['name']} is not callable but the intent has arguments")
        obj = attr
    if node["sub"]:
        subs = [realise(pkg, mods, type(obj), s) for s in node["sub"]]
        k = node.get("fields_split")
        if k and 0 < k < len(subs):
            obj = obj.fields(*subs[:k])  # the selection is built up by several .fields() calls on one builder
            obj = obj.fields(*subs[k:])
        else:
            obj = obj.fields(*subs)
    for tname, subs in node["on"].items():
        tcls = [v for k, v in vars(mods["custom_fields"]).items() if isinstance(v, type) and k in (tname + "Fields", tname + "Interface")]
        if len(tcls) != 1:
            raise LookupError(f"no builder class for type {tname}")
        obj = obj.on(tname, *[realise(pkg, mods, tcls[0], s) for s in subs])
    if node["alias"]:
        obj = obj.alias(node["alias"])
    return obj


def send(case, pkg, mods, client, transport, op, cache=None, step=None):
    """cache: builder objects of earlier operations of this process, keyed (history index, field index); an intent
    marked as reuse takes the cached OBJECT (a fresh process has none and builds the same expression anew)"""
    root_cls = mods["custom_queries"].Query if op["kind"] == "query" else mods["custom_mutations"].Mutation
    fields = []
    for j, f in enumerate(op["fields"]):
        src = (op.get("reuse") or {}).get(str(j))
        obj = cache.get(tuple(src)) if (cache is not None and src) else None
        if obj is None:
            obj = realise(pkg, mods, root_cls, f)
        if cache is not None:
            cache[(step, j)] = obj
        fields.append(obj)
    method = getattr(client, op["kind"])
    n0 = len(transport.requests)
    _v, exc = e2e.run_call(case, method, {}) if False else _call(method, fields, op["name"])
    req = transport.requests[n0] if len(transport.requests) > n0 else None
    return req, exc


def _call(method, fields, name):
    import asyncio

    try:
        if inspect.iscoroutinefunction(method):
            return asyncio.run(method(*fields, operation_name=name)), None
        return method(*fields, operation_name=name), None
    except BaseException as exc:  # noqa: BLE001
        return None, exc


# ------------------------------------------------------------------ oracle


class Match:
    def __init__(self, schema, doc, variables, vdefs):
        self.schema = schema
        self.variables = variables
        self.vdefs = vdefs
        self.used = []
        self.bad = []

    def fail(self, clause, sig, msg):
        if len(self.bad) < 5:
            self.bad.append({"clause": clause, "sig": sig, "msg": msg[:500]})

    def selset(self, sels, intent_fields, intent_on, parent, where):
        sent_fields = [s for s in sels if isinstance(s, FieldNode)]
        sent_inl = [s for s in sels if isinstance(s, InlineFragmentNode)]
        if [self.key(s) for s in sent_fields] != [f["alias"] or f["name"] for f in intent_fields] or \
                [s.name.value for s in sent_fields] != [f["name"] for f in intent_fields]:
            self.fail("structure", "fields", f"{where}: sent fields {[print_ast(s).split('(')[0].split('{')[0].strip() for s in sent_fields]} "
                                               f"but the expression built {[(f['alias'] + ': ' if f['alias'] else '') + f['name'] for f in intent_fields]}")
            return
        for s, f in zip(sent_fields, intent_fields):
            self.field(s, f, parent, where + "/" + (f["alias"] or f["name"]))
        if sorted(i.type_condition.name.value for i in sent_inl) != sorted(intent_on):
            self.fail("structure", "inline_fragments", f"{where}: inline fragments on {[i.type_condition.name.value for i in sent_inl]} expected {sorted(intent_on)}")
            return
        for i in sent_inl:
            t = self.schema.type_map[i.type_condition.name.value]
            self.selset(i.selection_set.selections, intent_on[t.name], {}, t, where + f"/...{t.name}")

    @staticmethod
    def key(s):
        return s.alias.value if s.alias else s.name.value

    def field(self, s, f, parent, where):
        fdef = parent.fields.get(f["name"]) if hasattr(parent, "fields") else None
        want_args = {k: v for k, v in f["args"].items() if v is not None}
        got = {a.name.value: a.value for a in s.arguments or ()}
        if set(got) != set(want_args):
            self.fail("arguments", "extra" if set(got) - set(want_args) else "missing",
                      f"{where}: arguments {sorted(got)} but the caller passed {sorted(want_args)} (None arguments must be omitted)")
        for aname, val in got.items():
            if aname not in want_args:
                continue
            if not isinstance(val, VariableNode):
                self.fail("arguments", "literal", f"{where}.{aname}: not bound to a variable")
                continue
            var = val.name.value
            self.used.append(var)
            vd = self.vdefs.get(var)
            if vd is None:
                self.fail("variable_undeclared", "nested" if where.count("/") > 1 else "top", f"{where}.{aname}: ${var} is used but not declared")
                continue
            if print_ast(vd.type) != want_args[aname]["type"]:
                self.fail("variable_type", "list" if "[" in want_args[aname]["type"] else "other",
                          f"{where}.{aname}: ${var} declared as {print_ast(vd.type)}, the argument's type is {want_args[aname]['type']}")
            expected = spec_to_json(want_args[aname]["spec"])
            if var not in (self.variables or {}) or not values_equal(self.variables[var], expected):
                self.fail("variable_value", "", f"{where}.{aname}: ${var} = {json.dumps((self.variables or {}).get(var))[:150]} expected {json.dumps(expected)[:150]}")
        named = get_named_type(fdef.type) if fdef is not None else None
        if f["sub"] or f["on"]:
            if s.selection_set is None:
                self.fail("structure", "no_selection", f"{where}: no selection set")
                return
            self.selset(s.selection_set.selections, f["sub"], f["on"], named, where)
        elif s.selection_set is not None:
            self.fail("structure", "leftover_selection", f"{where}: selection set {print_ast(s.selection_set)[:120]} although the expression selected nothing below")


def check_request(case, schema, op, body):
    bad = []
    try:
        doc = parse(body["query"])
    except Exception as exc:  # noqa: BLE001
        return [{"clause": "syntax", "sig": "", "msg": f"{op['name']}: {exc}"[:300]}]
    errs = validate(schema, doc, specified_rules)
    if errs:
        bad.append({"clause": "invalid_document", "sig": errs[0].message.split("'")[0].split('"')[0][:40],
                    "msg": f"{op['name']}: {errs[0].message}; document: {body['query'][:300]}"})
    ops = [d for d in doc.definitions if isinstance(d, OperationDefinitionNode)]
    if len(ops) != 1 or not ops[0].name or ops[0].name.value != op["name"] or body.get("operationName") != op["name"] \
            or ops[0].operation.value != op["kind"]:
        bad.append({"clause": "operation", "sig": "", "msg": f"{op['name']}: operations {[o.name.value if o.name else None for o in ops]} operationName={body.get('operationName')}"})
        return bad
    vdefs = {}
    for vd in ops[0].variable_definitions or ():
        if vd.variable.name.value in vdefs:
            bad.append({"clause": "variable_declared_twice", "sig": "", "msg": f"{op['name']}: ${vd.variable.name.value}"})
        vdefs[vd.variable.name.value] = vd
    root = schema.get_root_type(ops[0].operation)
    m = Match(schema, doc, body.get("variables"), vdefs)
    m.selset(ops[0].selection_set.selections, op["fields"], {}, root, op["name"])
    bad.extend(m.bad)
    unused = set(vdefs) - set(m.used)
    if unused and not m.bad:
        bad.append({"clause": "variable_leftover", "sig": "", "msg": f"{op['name']}: declared but unused variables {sorted(unused)}"})
    extra_values = set(body.get("variables") or {}) - set(vdefs)
    if extra_values:
        bad.append({"clause": "variable_leftover", "sig": "values", "msg": f"{op['name']}: values for undeclared variables {sorted(extra_values)}"})
    if not errs:
        coerced = get_variable_values(schema, ops[0].variable_definitions or (), body.get("variables") or {})
        if isinstance(coerced, list):
            bad.append({"clause": "coercion", "sig": "", "msg": f"{op['name']}: {coerced[0].message}"[:300]})
    return bad


def fresh_request(case, scratch, op):
    """the request a process that has built nothing else produces for this intent tree"""
    r, w = os.pipe()
    pid = os.fork()
    if pid == 0:
        try:
            os.close(r)
            pkg, mods, client, transport = load(case, scratch)
            req, exc = send(case, pkg, mods, client, transport, op)
            out = json.dumps({"body": json.loads(req.content) if req is not None else None, "exc": repr(exc) if exc else None})
            os.write(w, out.encode())
        finally:
            os._exit(0)
    os.close(w)
    data = b""
    while True:
        chunk = os.read(r, 1 << 16)
        if not chunk:
            break
        data += chunk
    os.close(r)
    os.waitpid(pid, 0)
    return json.loads(data) if data else {"body": None, "exc": "child died"}


def load(case, scratch):
    pkg = e2e.import_package(case, scratch)
    mods = {}
    for m in ("custom_fields", "custom_queries", "custom_mutations"):
        try:
            mods[m] = importlib.import_module(f"{pkg.__name__}.{m}")
        except ModuleNotFoundError:
            mods[m] = None
    transport = e2e.Transport(lambda body, req: (200, {"data": {}}))
    client = e2e.make_client(pkg, case, transport)
    return pkg, mods, client, transport


def run_case(case, scratch):
    if case.get("rejected"):
        return {"rejected": case["rejected"]}
    feats = case["features"]
    gen = e2e.generate(case, scratch)
    if not gen["ok"]:
        return {"failures": [{"clause": "generation", "sig": gen["sig"], "msg": f"{gen['type']}: {gen['msg']}"}], "units": 1, "features": feats}
    schema = build_schema(case["sdl"])
    failures, nts, units, sample = [], [], 0, None
    fresh = [fresh_request(case, scratch, op) for op in case["history"]]  # forked before this process builds anything
    try:
        pkg, mods, client, transport = load(case, scratch)
    except BaseException as exc:  # noqa: BLE001
        return {"failures": [{"clause": "import", "sig": type(exc).__name__, "msg": repr(exc)[:300]}], "units": 1, "features": feats}
    nt_case = bool(set(feats) & {"builder.nested_arg", "builder.list_arg", "builder.alias", "builder.inline_fragment"})
    cache = {}
    for i, op in enumerate(case["history"]):
        units += 1
        try:
            req, exc = send(case, pkg, mods, client, transport, op, cache, i)
        except LookupError as exc:
            failures.append({"clause": "builder_api", "sig": "", "msg": f"{op['name']}: {exc}"[:300]})
            continue
        except BaseException as exc:  # noqa: BLE001
            failures.append({"clause": "builder_raised", "sig": type(exc).__name__, "msg": f"{op['name']}: {exc!r}"[:300]})
            continue
        if req is None:
            failures.append({"clause": "no_request", "sig": type(exc).__name__, "msg": f"{op['name']}: {exc!r}"[:300]})
            continue
        body = json.loads(req.content)
        for f in check_request(case, schema, op, body):
            failures.append(f)
        if fresh[i]["body"] is not None and fresh[i]["body"] != body:
            failures.append({"clause": "history_dependence", "sig": "", "msg": f"{op['name']} (step {i}): after earlier operations the document is "
                             f"{body['query'][:250]!r}, a fresh process builds {fresh[i]['body']['query'][:250]!r}"})
        if nt_case or i >= 1:
            nts.append(hashlib.sha256(json.dumps([case["sdl"], case["history"][: i + 1]], sort_keys=True).encode()).hexdigest()[:16])
            if sample is None:
                sample = {"intent": op, "document": body["query"][:500], "variables": body.get("variables")}
    seen, out = set(), []
    for f in failures:
        k = (f["clause"], f["sig"])
        if k not in seen:
            seen.add(k)
            out.append(f)
    return {"failures": out[:6], "units": units, "nt": nts, "features": feats, "sample": sample}
