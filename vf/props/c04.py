"""C04 - Every valid input generates, and what is generated loads."""
import hashlib
import json
import os
import py_compile
import re
import subprocess
import sys

from hypothesis import strategies as st

from vf import e2e
from vf.gen_common import D
from vf.gen_project import base_config, build, wide_config
from vf.gen_schema import canon

ID = "C04"
RULE = (
    "hypothesis-generated project with the widest generator: all name pools (keywords, pydantic-reserved, Enum-reserved, "
    "names shadowing module-level names), recursive inputs, interfaces implementing interfaces, custom scalars in every "
    "import style, mixins, files_to_include, custom operations, subscriptions, drawn module / class / package names, and "
    "the four documented refusal classes. unit = project; non-trivial = >= 2 of {reserved-pool name, recursive input, "
    "interface-implements-interface, >= 2 options off default, custom scalar, fragment}; distinct by sha256 of the inputs."
)
ASSUMPTIONS = [
    "the documented refusals are: anonymous operation, subscription with a synchronous client, colliding file names, "
    "malformed @mixin arguments (README) - each must be raised as an ariadne-codegen exception and only for inputs of that class",
    "a fresh interpreter (subprocess) imports the package and every module; pydantic's __pydantic_complete__ decides 'fully built'",
]
FRESH = os.path.join(os.path.dirname(os.path.dirname(os.path.abspath(__file__))), "fresh_import.py")


def budget(tier):
    return {"examples": 320 if tier == "quick" else 5000, "timeout": 240.0}


@st.composite
def _cases(draw):
    d = D(draw)
    refusal = d.weighted([(16, None), (1, "anonymous"), (1, "sub_sync"), (1, "dup_files"), (1, "bad_mixin")])
    want_sub = refusal == "sub_sync" or d.bool(0.15)
    cfg = base_config(d)
    custom_ops = d.bool(0.25)
    rich = "shadow"
    if custom_ops and not d.enabled("customops.rich_names"):
        rich = False
    kinds = ("query", "mutation", "subscription") if want_sub else ("query", "mutation")
    case = build(
        d, config=cfg, calls_per_op=0, mixins=d.bool(0.3) or refusal == "bad_mixin",
        schema_kw={"rich_names": rich, "subscription": want_sub, "defaults": 0.3, "want_custom_operations": custom_ops,
                   "input_heavy": d.bool(0.5)},
        ops_kw={"local_var_names": True, "var_p": 0.65}, doc_kw={"n_ops": (1, 4), "n_frags": (0, 4), "kinds": kinds},
        config_desc_fn=wide_config,
    )
    desc = case.pop("_desc_obj", None)
    if case.get("rejected"):
        return case
    cfg = case["config"]
    has_sub = any(o["kind"] == "subscription" for o in case["ops"])
    if refusal == "sub_sync":
        if has_sub:
            cfg["async_client"] = False
        else:
            refusal = None
    elif has_sub and not cfg.get("async_client", True):
        cfg["async_client"] = True
    if refusal == "anonymous":
        # a lone anonymous operation (the only form graphql validation allows)
        case["queries"] = "{ __typename }\n"
        case["ops"] = []
    if refusal == "bad_mixin":
        from graphql import GraphQLNonNull, build_schema, get_named_type, is_composite_type

        schema = build_schema(case["sdl"])
        cands = [n for n, f in schema.query_type.fields.items() if is_composite_type(get_named_type(f.type))
                 and not any(isinstance(a.type, GraphQLNonNull) for a in f.args.values())]
        if cands:
            # malformed @mixin: the required `import` argument is missing
            case["queries"] += '\nquery BadMixinOp { %s @mixin(from: ".mixins") { __typename } }\n' % cands[0]
            case["ops"].append({"name": "BadMixinOp", "kind": "query", "vars": []})
        else:
            refusal = None
    if refusal == "dup_files":
        which = d.choice(["enums=client", "inputs=enums", "fragments=base_model", "file=client"])
        if which == "enums=client":
            cfg["enums_module_name"] = cfg.get("client_file_name", "client")
        elif which == "inputs=enums":
            cfg["input_types_module_name"] = cfg.get("enums_module_name", "enums")
        elif which == "fragments=base_model":
            cfg["fragments_module_name"] = "base_model"
        else:
            case["files"]["sub/" + cfg.get("client_file_name", "client") + ".py"] = "X = 1\n"
            cfg.setdefault("files_to_include", []).append("sub/" + cfg.get("client_file_name", "client") + ".py")
    case["refusal"] = refusal
    if refusal:
        d.tag("refusal." + refusal)
    case["features"] = sorted(d.features)
    return case


def strategy(tier):
    return _cases()


def module_file_names(case):
    """All file names the layout implies (to know whether a 'duplicated file names' refusal is justified)."""
    cfg = case["config"]
    names = [cfg.get("client_file_name", "client"), cfg.get("enums_module_name", "enums"),
             cfg.get("input_types_module_name", "input_types"), cfg.get("fragments_module_name", "fragments"),
             "base_model", "exceptions"]
    if cfg.get("async_client", True):
        names.append("async_base_client_open_telemetry" if cfg.get("opentelemetry_client") else "async_base_client")
    else:
        names.append("base_client_open_telemetry" if cfg.get("opentelemetry_client") else "base_client")
    for f in cfg.get("files_to_include", []):
        names.append(os.path.basename(f)[:-3])
    if cfg.get("enable_custom_operations"):
        names.append("base_operation")
    return names


def has_dup_files(case, msg):
    """is the refusal justified? the message names the duplicated files; each must really occur twice in
    the documented layout (operation modules are named after the snake-cased operation)."""
    names = module_file_names(case)
    counted = {}
    for n in names:
        counted[n] = counted.get(n, 0) + 1
    dup = {n for n, c in counted.items() if c > 1}
    opmods = {canon(o["name"]) for o in case["ops"]}
    return bool(dup) or any(canon(n) in opmods for n in names)


def nontrivial_score(case):
    f = set(case["features"])
    score = 0
    score += any(x in f for x in ("enumval.keyword", "names.var_keyword", "names.field_shadows_module_name", "names.var_is_method_local"))
    score += any(x.startswith("input.self_recursive") or x == "input.forward_ref" for x in f)
    score += "schema.iface_implements_iface" in f
    score += sum(1 for x in f if x.startswith("cfg.")) >= 2
    score += any(x.startswith("scalar.") and x != "scalar.none" for x in f)
    score += "op.fragment_spread" in f
    return score


def run_case(case, scratch):
    if case.get("rejected"):
        return {"rejected": case["rejected"]}
    feats = case["features"]
    failures = []
    gen = e2e.generate(case, scratch)
    refusal = case.get("refusal")
    h = hashlib.sha256(json.dumps([case["sdl"], case["queries"], case["config"]], sort_keys=True).encode()).hexdigest()[:16]
    nt = [h] if nontrivial_score(case) >= 2 else []
    sample = {"config": case["config"], "queries": case["queries"][:500], "sdl": case["sdl"][:500], "refusal": refusal}
    pkgdir = os.path.join(scratch, e2e.package_name(case))
    if not gen["ok"]:
        documented = {
            "anonymous": ("ParsingError", "NotSupported"), "sub_sync": ("NotSupported",),
            "dup_files": ("ParsingError",), "bad_mixin": ("ParsingError",),
        }
        if refusal and gen["codegen_exc"] and gen["type"] in documented[refusal]:
            ok = True
            if refusal == "dup_files" and "Duplicated file names" not in gen["msg"]:
                ok = False
            if refusal == "sub_sync" and "Subscriptions" not in gen["msg"]:
                ok = False
            if ok:
                return {"failures": [], "units": 1, "nt": nt, "features": feats, "sample": sample}
        if gen["codegen_exc"] and "Duplicated file names" in gen["msg"] and has_dup_files(case, gen["msg"]):
            # drawn names collided by themselves: documented refusal for an input really of that class
            return {"failures": [], "units": 1, "nt": nt, "features": feats + ["refusal.dup_files_natural"], "sample": sample}
        clause = "undocumented_refusal" if gen["codegen_exc"] else "internal_error"
        failures.append({"clause": clause, "sig": gen["sig"], "msg": f"{gen['type']}: {gen['msg']}"[:500]})
        return {"failures": failures, "units": 1, "nt": nt, "features": feats, "sample": sample}
    if refusal:
        failures.append({"clause": "refusal_missing", "sig": refusal, "msg": f"input of refusal class {refusal} was accepted"})
        return {"failures": failures, "units": 1, "nt": nt, "features": feats, "sample": sample}
    # (2) every emitted .py compiles; (6) reported list == directory listing
    listing = sorted(f for f in os.listdir(pkgdir) if f != "__pycache__")
    for fn in listing:
        if fn.endswith(".py"):
            try:
                with open(os.path.join(pkgdir, fn), encoding="utf-8") as fh:
                    compile(fh.read(), fn, "exec")
            except SyntaxError as exc:
                failures.append({"clause": "syntax", "sig": fn if fn in ("client.py", "enums.py", "input_types.py") else "op-module",
                                 "msg": f"{fn}: {exc}"[:300]})
    m = re.search(r"Generated files:\n((?:  .*\n)+)", gen["stdout"])
    reported = sorted(x.strip() for x in m.group(1).splitlines()) if m else None
    if reported != listing:
        failures.append({"clause": "file_list", "sig": "mismatch",
                         "msg": f"reported {reported} but directory holds {listing}"[:500]})
    # (3)(4)(5) fresh interpreter
    env = dict(os.environ, PYTHONDONTWRITEBYTECODE="1")
    env.pop("PYTHONPATH", None)
    proc = subprocess.run([sys.executable, FRESH, scratch, e2e.package_name(case)], capture_output=True, text=True,
                          timeout=120, env=env, cwd=scratch)
    try:
        rep = json.loads(proc.stdout.strip().splitlines()[-1])
    except Exception:  # noqa: BLE001
        return {"harness_error": f"fresh_import produced no report: rc={proc.returncode} {proc.stderr[-500:]}"}
    for p in rep["problems"]:
        failures.append({"clause": p["clause"], "sig": p["sig"], "msg": p["msg"]})
    lazy = rep.get("lazy_models") or []
    if lazy:  # "all pydantic models fully built" after import (a nested fragment class was not: FX-12)
        failures.append({"clause": "incomplete_model", "sig": "lazy", "msg": f"not fully built after import: {lazy}"[:400]})
    if rep.get("all") is not None:
        try:
            with open(os.path.join(pkgdir, "__init__.py")) as fh:
                import ast

                tree = ast.parse(fh.read())
            imported = [a.asname or a.name for n in tree.body if isinstance(n, ast.ImportFrom) for a in n.names]
            if sorted(imported) != sorted(rep["all"]):
                failures.append({"clause": "all_vs_imports", "sig": "mismatch",
                                 "msg": f"__init__ imports {sorted(set(imported) ^ set(rep['all']))} differ from __all__"[:400]})
        except SyntaxError:
            pass
    seen, out = set(), []
    for f in failures:
        k = (f["clause"], f["sig"])
        if k not in seen:
            seen.add(k)
            out.append(f)
    return {"failures": out[:5], "units": 1, "nt": nt, "features": feats, "sample": sample,
            "counters": {"models_completed_lazily": len(lazy)}}
