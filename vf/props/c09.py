"""C09 - Pruning unused inputs and enums never removes something needed."""
import ast
import hashlib
import importlib
import json
import os
import subprocess
import sys

from graphql import (
    FieldNode,
    FragmentSpreadNode,
    GraphQLEnumType,
    GraphQLInputObjectType,
    InlineFragmentNode,
    build_schema,
    get_named_type,
    is_abstract_type,
    parse,
    type_from_ast,
)

from vf import e2e, opwalk
from vf.gen_project import base_config, project_strategy

ID = "C09"
RULE = (
    "hypothesis-generated projects around input / enum dependency graphs (chains, cycles, enums used only in input "
    "defaults, only in fragments, only in nested results, only as variable types, inputs only nested in other inputs; "
    "operation sets that use no inputs); the SAME inputs are generated four times, once per combination of "
    "include_all_inputs / include_all_enums. Oracles: differential against the unpruned package on the same scripted "
    "calls (requests and results identical), fresh-interpreter import, lower bound (own DFS closure is retained), upper "
    "bound (nothing outside the closure computed with all fragments), textual identity of every retained class. "
    "unit = (project, flag combination); non-trivial = the closure is a strict subset of the schema's inputs/enums and "
    "has depth >= 2 or a cycle; distinct by sha256(inputs, flags)."
)
ASSUMPTIONS = [
    "own DFS over the schema / operations computes the closures; 'fragments' in the statement is ambiguous between used "
    "and all fragments, anything between the two bounds is accepted for enums",
    "each of the four generations runs in its own forked process (the generator keeps process-global state)",
]
FRESH = os.path.join(os.path.dirname(os.path.dirname(os.path.abspath(__file__))), "fresh_import.py")
COMBOS = [(True, True), (False, True), (True, False), (False, False)]


def budget(tier):
    return {"examples": 300 if tier == "quick" else 4000, "timeout": 400.0}


def strategy(tier):
    return project_strategy(
        calls_per_op=2,
        doc_kw={"n_ops": (1, 3), "n_frags": (0, 3)},
        ops_kw={"var_p": 0.6, "frag_p": 0.5, "enums_in_fragments_only_p": 0.2},
        schema_kw={"input_heavy": True, "defaults": 0.35},
        config_fn=lambda d: base_config(d, otel=False),
    )


def generate_forked(case, scratch):
    """one generation per process"""
    pid = os.fork()
    if pid == 0:
        code = 0
        try:
            g = e2e.generate(case, scratch)
            if not g["ok"]:
                with open(os.path.join(scratch, f"gen_error_{e2e.package_name(case)}.json"), "w") as fh:
                    json.dump({"sig": g["sig"], "type": g["type"], "msg": g["msg"]}, fh)
                code = 1
        except BaseException:  # noqa: BLE001
            code = 2
        finally:
            os._exit(code)
    _pid, status = os.waitpid(pid, 0)
    return os.waitstatus_to_exitcode(status)


# ------------------------------------------------------------------ own closures


def _possible(schema, t):
    if is_abstract_type(t):
        return {x.name for x in schema.get_possible_types(t)}
    return {t.name}


def enums_of_selection(schema, fragments, selection_set, parent, acc, seen_frags, live=None):
    """enums of the result fields under `selection_set`.  With `live` (the set of runtime types the position can
    have) branches whose type condition excludes every such type are skipped: no response can carry them and no
    generated model stands for them (used for the LOWER bound); without it every branch counts (UPPER bound)."""
    for sel in selection_set.selections:
        if isinstance(sel, FieldNode):
            if sel.name.value == "__typename" or not hasattr(parent, "fields"):
                continue
            fdef = parent.fields[sel.name.value]
            named = get_named_type(fdef.type)
            if isinstance(named, GraphQLEnumType):
                acc.add(named.name)
            if sel.selection_set is not None:
                enums_of_selection(schema, fragments, sel.selection_set, named, acc, seen_frags,
                                   None if live is None else _possible(schema, named))
        elif isinstance(sel, InlineFragmentNode):
            t = schema.type_map[sel.type_condition.name.value] if sel.type_condition else parent
            sub = None if live is None else live & _possible(schema, t)
            if sub is not None and not sub:
                continue
            enums_of_selection(schema, fragments, sel.selection_set, t, acc, seen_frags, sub)
        elif isinstance(sel, FragmentSpreadNode):
            name = sel.name.value
            fr = fragments[name]
            t = schema.type_map[fr.type_condition.name.value]
            if live is None:
                if name in seen_frags:
                    continue
                seen_frags.add(name)
                enums_of_selection(schema, fragments, fr.selection_set, t, acc, seen_frags)
            else:
                sub = live & _possible(schema, t)
                if not sub or (name, frozenset(sub)) in seen_frags:
                    continue
                seen_frags.add((name, frozenset(sub)))
                enums_of_selection(schema, fragments, fr.selection_set, t, acc, seen_frags, sub)


def closures(schema, doc):
    fragments = opwalk.fragments_of(doc)
    ops = opwalk.operations_of(doc)
    var_inputs, var_enums = set(), set()
    for op in ops.values():
        for vd in op.variable_definitions:
            named = get_named_type(type_from_ast(schema, vd.type))
            if isinstance(named, GraphQLInputObjectType):
                var_inputs.add(named.name)
            elif isinstance(named, GraphQLEnumType):
                var_enums.add(named.name)
    closure, depth, cyc = set(), {}, False
    stack = [(n, 1) for n in var_inputs]
    while stack:
        n, dep = stack.pop()
        if n in closure:
            cyc = cyc or True
            continue
        closure.add(n)
        depth[n] = dep
        for f in schema.type_map[n].fields.values():
            named = get_named_type(f.type)
            if isinstance(named, GraphQLInputObjectType):
                stack.append((named.name, dep + 1))
    all_inputs = {n for n, t in schema.type_map.items() if isinstance(t, GraphQLInputObjectType)}
    all_enums = {n for n, t in schema.type_map.items() if isinstance(t, GraphQLEnumType) and not n.startswith("__")}

    def input_enums(inputs):
        out = set()
        for n in inputs:
            for f in schema.type_map[n].fields.values():
                named = get_named_type(f.type)
                if isinstance(named, GraphQLEnumType):
                    out.add(named.name)
        return out

    used_result, used_frags = set(), set()
    for op in ops.values():
        root = schema.get_root_type(op.operation)
        enums_of_selection(schema, fragments, op.selection_set, root, used_result, used_frags, live={root.name})
    all_frag_result = set(used_result)
    for name, fr in fragments.items():
        enums_of_selection(schema, fragments, fr.selection_set, schema.type_map[fr.type_condition.name.value], all_frag_result, set())
    return {"inputs": closure, "all_inputs": all_inputs, "all_enums": all_enums, "var_enums": var_enums,
            "input_enums": input_enums, "result_enums_used": used_result, "result_enums_all_fragments": all_frag_result,
            "max_depth": max(depth.values()) if depth else 0, "cycle": cyc}


def class_sources(path):
    try:
        text = open(path, encoding="utf-8").read()
    except FileNotFoundError:
        return {}
    tree = ast.parse(text)
    return {n.name: ast.get_source_segment(text, n) for n in tree.body if isinstance(n, ast.ClassDef)}


def run_case(case, scratch):
    if case.get("rejected"):
        return {"rejected": case["rejected"]}
    feats = case["features"]
    schema = build_schema(case["sdl"])
    doc = parse(case["queries"])
    cl = closures(schema, doc)
    variants = {}
    for inputs_all, enums_all in COMBOS:
        v = json.loads(json.dumps(case))
        name = f"pkg_{'a' if inputs_all else 'p'}{'a' if enums_all else 'p'}"
        v["config"] = dict(case["config"], include_all_inputs=inputs_all, include_all_enums=enums_all, target_package_name=name)
        variants[(inputs_all, enums_all)] = v
        rc = generate_forked(v, scratch)
        if rc == 2:
            return {"harness_error": "generation subprocess crashed"}
    failures, nts, units = [], [], 0

    def fail(clause, sig, msg):
        failures.append({"clause": clause, "sig": sig, "msg": msg[:500]})

    base_v = variants[(True, True)]
    err = os.path.join(scratch, "gen_error_pkg_aa.json")
    if os.path.exists(err):
        e = json.load(open(err))
        return {"failures": [{"clause": "generation", "sig": e["sig"], "msg": f"{e['type']}: {e['msg']}"}], "units": 1, "features": feats}
    h = hashlib.sha256(json.dumps([case["sdl"], case["queries"], case["config"]], sort_keys=True).encode()).hexdigest()[:14]
    strict = cl["inputs"] < cl["all_inputs"] or (cl["var_enums"] | cl["result_enums_used"]) < cl["all_enums"]
    nontrivial = strict and (cl["max_depth"] >= 2 or cl["cycle"])
    env = dict(os.environ, PYTHONDONTWRITEBYTECODE="1")
    env.pop("PYTHONPATH", None)
    results = {}
    base_src = {}
    for combo, v in variants.items():
        pname = e2e.package_name(v)
        units += 1
        if nontrivial and combo != (True, True):
            nts.append(f"{h}:{pname}")
        errf = os.path.join(scratch, f"gen_error_{pname}.json")
        if os.path.exists(errf):
            e = json.load(open(errf))
            fail("pruned_generation_fails", e["sig"], f"{pname}: {e['type']}: {e['msg']}")
            continue
        proc = subprocess.run([sys.executable, FRESH, scratch, pname], capture_output=True, text=True, timeout=120, env=env, cwd=scratch)
        try:
            rep = json.loads(proc.stdout.strip().splitlines()[-1])
        except Exception:  # noqa: BLE001
            return {"harness_error": "fresh import report missing: " + proc.stderr[-300:]}
        for p in rep["problems"]:
            fail("load_" + p["clause"], pname if combo != (True, True) else "unpruned", f"{pname}: {p['msg']}")
        cfg = v["config"]
        pdir = os.path.join(scratch, pname)
        enums_src = class_sources(os.path.join(pdir, cfg.get("enums_module_name", "enums") + ".py"))
        inputs_src = class_sources(os.path.join(pdir, cfg.get("input_types_module_name", "input_types") + ".py"))
        if combo == (True, True):
            base_src = {"enums": enums_src, "inputs": inputs_src}
        inputs_all, enums_all = combo
        have_inputs, have_enums = set(inputs_src), set(enums_src)
        retained_inputs = cl["all_inputs"] if inputs_all else cl["inputs"]
        # bounds for inputs
        if inputs_all:
            if have_inputs != cl["all_inputs"]:
                fail("inputs_unpruned_differ", "", f"{pname}: inputs {sorted(have_inputs)} vs schema {sorted(cl['all_inputs'])}")
        else:
            if cl["inputs"] - have_inputs:
                fail("needed_input_removed", "", f"{pname}: inputs {sorted(cl['inputs'] - have_inputs)} are reachable from the variables but were pruned")
            if have_inputs - cl["inputs"]:
                fail("unneeded_input_kept", "", f"{pname}: inputs {sorted(have_inputs - cl['inputs'])} are outside the closure {sorted(cl['inputs'])}")
        # bounds for enums
        lower = cl["var_enums"] | cl["input_enums"](have_inputs & cl["all_inputs"]) | cl["result_enums_used"]
        upper = cl["var_enums"] | cl["input_enums"](have_inputs & cl["all_inputs"]) | cl["result_enums_all_fragments"]
        if enums_all:
            if have_enums != cl["all_enums"]:
                fail("enums_unpruned_differ", "", f"{pname}: enums {sorted(have_enums)} vs schema {sorted(cl['all_enums'])}")
        else:
            if lower - have_enums:
                fail("needed_enum_removed", "", f"{pname}: enums {sorted(lower - have_enums)} are needed (variables / retained inputs / results) but were pruned")
            if have_enums - upper:
                fail("unneeded_enum_kept", "", f"{pname}: enums {sorted(have_enums - upper)} are outside the closure {sorted(upper)}")
        # textual identity
        for kind, src in (("enums", enums_src), ("inputs", inputs_src)):
            for cname, text in src.items():
                if cname in base_src.get(kind, {}) and base_src[kind][cname] != text:
                    fail("retained_class_differs", kind, f"{pname}: class {cname} differs textually from the unpruned package")
        # behaviour
        try:
            sys.path.insert(0, scratch) if scratch not in sys.path else None
            sess = _session(v, scratch)
        except BaseException as exc:  # noqa: BLE001
            fail("import", pname if combo != (True, True) else "unpruned", f"{pname}: {exc!r}")
            continue
        outs = []
        for call in case["calls"]:
            if sess.ops[call["op"]]["kind"] == "subscription":
                continue
            r = sess.call(call)
            body = r["request"].content.decode() if r["request"] is not None else None
            if r["exc"] is not None:
                val = "EXC:" + type(r["exc"]).__name__
            elif r["value"] is not None:
                val = json.dumps(r["value"].model_dump(mode="json", by_alias=True), sort_keys=True, default=repr)
            else:
                val = json.dumps(r["problem"], default=repr)
            outs.append((body, val))
        results[combo] = outs
    base = results.get((True, True))
    if base is not None:
        for combo, outs in results.items():
            if combo != (True, True) and outs != base:
                idx = next(i for i, (a, b) in enumerate(zip(outs, base)) if a != b)
                fail("behaviour_differs", "request" if outs[idx][0] != base[idx][0] else "result",
                     f"{variants[combo]['config']['target_package_name']}: call {idx} differs from the unpruned package: {str(outs[idx])[:200]} vs {str(base[idx])[:200]}")
    seen, out = set(), []
    for f in failures:
        k = (f["clause"], f["sig"])
        if k not in seen:
            seen.add(k)
            out.append(f)
    sample = {"inputs_closure": sorted(cl["inputs"]), "all_inputs": sorted(cl["all_inputs"]), "all_enums": sorted(cl["all_enums"]),
              "enum_lower_bound": sorted(cl["var_enums"] | cl["result_enums_used"]), "queries": case["queries"][:500]}
    return {"failures": out[:6], "units": units, "nt": nts, "features": feats, "sample": sample if nontrivial else None}


class _session(e2e.Session):
    """Session over an already generated package"""

    def __init__(self, case, scratch):
        self.case = case
        self.failure = None
        self.pkg = e2e.import_package(case, scratch)
        self.server = e2e.server_for(case)
        self.transport = e2e.Transport(self._respond)
        self.client = e2e.make_client(self.pkg, case, self.transport)
        self.ops = {o["name"]: o for o in case["ops"]}
