"""C03 - Method arguments arrive at the server as the declared variables."""
import hashlib
import inspect
import json

from graphql import OperationDefinitionNode, build_schema, parse
from graphql.execution.values import get_variable_values

from vf import e2e
from vf.gen_ops import spec_to_json
from vf.gen_project import project_strategy
from vf.props.c01 import values_equal

ID = "C03"
RULE = (
    "hypothesis-generated projects whose operations take many variables (every wrapper combination over scalars, enums, "
    "nested/recursive input objects, custom scalars; operation-level and schema-level defaults; camelCase / keyword / "
    "pydantic-reserved names); per operation 3 (quick) / 8 (thorough) calls with drawn argument assignments (present, "
    "explicit None, omitted; input models built by alias or by Python field name with unset fields). The captured "
    "variables JSON is compared with the JSON computed from the draw, coerced by graphql-core's reference variable "
    "coercion on both sides, and the recording resolvers' arguments are compared with the reference. "
    "unit = (operation, call); non-trivial = an input-object or list argument, or an omitted / None argument; "
    "distinct by sha256(operation, arguments)."
)
ASSUMPTIONS = [
    "graphql-core get_variable_values is the reference for spec-conformant variable coercion",
    "the expected variables JSON is computed from the drawn value specification, not from the code under test",
    "a non-null variable with an operation-level default being a required Python argument is allowed by the statement (observation only)",
]
FLOORS = {"arg.omitted": 0.2, "arg.none": 0.15, "arg.input": 0.3}


def budget(tier):
    return {"examples": 420 if tier == "quick" else 6000, "timeout": 180.0}


def strategy(tier):
    return project_strategy(
        calls_per_op=3 if tier == "quick" else 8,
        doc_kw={"n_ops": (1, 3), "n_frags": (0, 2)},
        ops_kw={"var_p": 0.9, "local_var_names": True, "frag_p": 0.2, "directive_p": 0.15},
        schema_kw={"input_heavy": True, "defaults": 0.3},
        omit_p=0.62, subscriptions_if_async=True,
    )


def norm(v):
    """enum members / models inside coerced values do not occur (SDL-built schema): plain JSON-like"""
    return v


def run_case(case, scratch):
    if case.get("rejected"):
        return {"rejected": case["rejected"]}
    feats = case["features"]
    sess = e2e.Session(case, scratch)
    if sess.failure:
        return {"failures": [sess.failure], "units": 1, "features": feats}
    schema = build_schema(case["sdl"])
    authored = parse(case["queries"])
    opdefs = {d.name.value: d for d in authored.definitions if isinstance(d, OperationDefinitionNode)}
    failures, nts, units, sample = [], [], 0, None
    for call in case["calls"]:
        op = sess.ops[call["op"]]
        units += 1
        r = sess.call(call)
        if r["problem"]:
            failures.append(r["problem"])
            continue
        expected = {k: spec_to_json(v) for k, v in call["args"].items()}
        nontrivial = any(isinstance(v, (dict, list)) or v is None for v in expected.values()) or \
            len(expected) < len(op["vars"])
        if r["request"] is None:
            failures.append({"clause": "no_request", "sig": type(r["exc"]).__name__, "msg": f"{op['name']}: {r['exc']!r}"[:300]})
            continue
        body = json.loads(r["request"].content)
        sent = body.get("variables")
        if sent is None and op["kind"] == "subscription" and "variables" not in body:
            sent = {}  # the subscribe payload of graphql-transport-ws may omit an empty variables member
        if nontrivial:
            nts.append(hashlib.sha256(json.dumps([case["sdl"], op["name"], call["args"]], sort_keys=True).encode()).hexdigest()[:16])
            if sample is None:
                sample = {"operation": [d for d in case["queries"].split("\n\n") if op["name"] in d][:1],
                          "arguments": call["args"], "variables_sent": sent}
        # (2) exact payload
        if not isinstance(sent, dict):
            failures.append({"clause": "payload", "sig": "not-object", "msg": f"{op['name']}: variables is {sent!r}"})
            continue
        if set(sent) != set(expected):
            extra, missing = sorted(set(sent) - set(expected)), sorted(set(expected) - set(sent))
            failures.append({"clause": "payload_keys", "sig": "extra" if extra else "missing",
                             "msg": f"{op['name']}: variables keys {sorted(sent)} but the caller passed {sorted(expected)}"})
        elif not values_equal(sent, expected):
            failures.append({"clause": "payload_values", "sig": "",
                             "msg": f"{op['name']}: variables {json.dumps(sent)[:300]} expected {json.dumps(expected)[:300]}"})
        # (1) + (3) reference coercion on both sides
        vdefs = opdefs[op["name"]].variable_definitions
        got = get_variable_values(schema, vdefs, sent)
        want = get_variable_values(schema, vdefs, expected)
        if isinstance(want, list):
            return {"harness_error": f"generator produced arguments the reference refuses: {want[0].message} {expected}"}
        if isinstance(got, list):
            failures.append({"clause": "coercion", "sig": got[0].message.split('"')[0][:40],
                             "msg": f"{op['name']}: reference variable coercion refuses the sent variables: {got[0].message}"[:400]})
        elif got != want:
            failures.append({"clause": "coerced_values", "sig": "", "msg": f"{op['name']}: coerced {got} expected {want}"[:500]})
        rec = r["rec"]
        if rec is not None and rec["errors"]:
            failures.append({"clause": "server_refused", "sig": rec["errors"][0].split("'")[0][:40], "msg": f"{op['name']}: {rec['errors'][0]}"[:400]})
        # (4) a required variable cannot be omitted
        method = r["method"]
        required = [v for v in op["vars"] if v["type"].endswith("!") and v["default"] is None]
        if required:
            victim = required[0]["name"]
            p = e2e.param_for(method, victim)
            kw = {k: v for k, v in r["kwargs"].items() if k != p}
            n0 = len(sess.transport.requests)
            _v, exc = e2e.run_call(case, method, kw)
            if not isinstance(exc, TypeError) or len(sess.transport.requests) != n0:
                failures.append({"clause": "required_omitted", "sig": "",
                                 "msg": f"{op['name']}: calling without required ${victim} gave {exc!r} and sent {len(sess.transport.requests) - n0} requests"})
    seen, out = set(), []
    for f in failures:
        k = (f["clause"], f["sig"])
        if k not in seen:
            seen.add(k)
            out.append(f)
    return {"failures": out[:5], "units": units, "nt": nts, "features": feats, "sample": sample}
