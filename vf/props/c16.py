"""C16 - The graphqlschema strategy reproduces the schema."""
import hashlib
import io
import json
import os
import re
import runpy
from contextlib import redirect_stdout

from graphql import (
    GraphQLEnumType,
    GraphQLInputObjectType,
    GraphQLInterfaceType,
    GraphQLObjectType,
    GraphQLScalarType,
    GraphQLSchema,
    GraphQLUnionType,
    Undefined,
    assert_valid_schema,
    build_client_schema,
    build_schema,
    graphql_sync,
    print_schema,
)
from hypothesis import strategies as st

from vf.gen_common import D
from vf.gen_schema import gen_schema, render_sdl_rich

ID = "C16"
RULE = (
    "hypothesis-generated decorated schemas (descriptions single/multi-line with quotes, backslashes, unicode; "
    "@deprecated on fields/args/input fields/enum values; custom directives with every location, repeatable flag and "
    "argument defaults; @specifiedBy; schema description; custom root names; extend type; defaults of every literal kind) "
    "x variable names x target {.py, .graphql, .gql} x source {SDL file, SDL directory, introspection served by graphql-core}. "
    "The generated .py is executed and the schema compared with the source by print_schema AND structurally (kinds, type "
    "strings, default values with == and type, deprecations, descriptions, interfaces, union members, enum values, "
    "directives incl. locations and repeatability, root types, schema description, specifiedBy). "
    "unit = (schema, target, source); non-trivial = an object/list/enum default and one of {custom directive, interface "
    "implementing interface, custom root name, multi-line description}; distinct by sha256(SDL, config)."
)
ASSUMPTIONS = [
    "graphql-core build_schema / print_schema / introspection are the reference",
    "for an introspected source the reference is the schema described by the server's answer to the tool's own "
    "introspection query (the tool asks with descriptions=False, so descriptions are absent by its own request)",
    "order of types/fields is not promised by the statement: order-only differences are observations, not violations",
]
VAR_NAMES = ["schema", "type_map", "my_schema", "TYPES", "s1", "schemaObj", "_private", "cast", "List", "TypeMap",
             "GraphQLSchema", "Undefined", "GraphQLString", "types"]


def budget(tier):
    return {"examples": 600 if tier == "quick" else 8000, "timeout": 180.0}


@st.composite
def _cases(draw):
    d = D(draw)
    desc = gen_schema(d, defaults=0.5, input_heavy=d.bool(0.6), mutation=True, subscription=d.bool(0.2))
    target = d.weighted([(5, "schema_out.py"), (2, "out/schema.graphql"), (1, "schema.gql"), (1, "Schema.PY")])
    # KF-C16-2 (an empty description vanishes) only exists for the printed .graphql / .gql target
    sdl = render_sdl_rich(d, desc, empty_descriptions_ok=target.lower().endswith(".py"),
                          printed_target=not target.lower().endswith(".py"))
    try:
        schema = build_schema(sdl)
        assert_valid_schema(schema)
    except Exception as exc:  # noqa: BLE001
        return {"rejected": f"schema: {exc}"[:300], "sdl": sdl}
    source = d.weighted([(5, "file"), (2, "dir"), (2, "introspection")])
    cfg = {"target_file_path": target}
    if d.bool(0.5):
        names = d.sample(VAR_NAMES, 2)
        if any(n in ("cast", "List", "TypeMap", "GraphQLSchema", "Undefined", "GraphQLString") for n in names):
            if not d.enabled("c16.var_shadows_module_name"):
                names = ["my_schema", "TYPES"]
        cfg["schema_variable_name"], cfg["type_map_variable_name"] = names
        d.tag("cfg.variable_names")
    d.tag("target." + target.rsplit(".", 1)[1].lower(), "source." + source)
    case = {"sdl": sdl, "config": cfg, "source": source, "features": sorted(d.features)}
    return case


def strategy(tier):
    return _cases()


# ------------------------------------------------------------------ structural facts


def dv(v):
    return "Undefined" if v is Undefined else f"{type(v).__name__}:{v!r}"


def arg_facts(args):
    return {n: {"type": str(a.type), "default": dv(a.default_value), "deprecation": a.deprecation_reason,
                "description": a.description} for n, a in args.items()}


def facts(schema: GraphQLSchema, with_descriptions=True):
    def de(x):
        return x if with_descriptions else None

    out = {"types": {}, "directives": {}, "roots": {
        "query": getattr(schema.query_type, "name", None), "mutation": getattr(schema.mutation_type, "name", None),
        "subscription": getattr(schema.subscription_type, "name", None)}, "description": de(schema.description)}
    for name, t in schema.type_map.items():
        if name.startswith("__") or name in ("String", "Int", "Float", "Boolean", "ID"):
            continue
        f = {"kind": type(t).__name__, "description": de(t.description)}
        if isinstance(t, (GraphQLObjectType, GraphQLInterfaceType)):
            f["interfaces"] = sorted(i.name for i in t.interfaces)
            f["fields"] = {fn: {"type": str(fd.type), "args": arg_facts(fd.args), "deprecation": fd.deprecation_reason,
                                "description": de(fd.description)} for fn, fd in t.fields.items()}
            f["field_order"] = list(t.fields)
        elif isinstance(t, GraphQLUnionType):
            f["members"] = sorted(m.name for m in t.types)
        elif isinstance(t, GraphQLEnumType):
            f["values"] = {vn: {"value": repr(v.value), "deprecation": v.deprecation_reason, "description": de(v.description)}
                           for vn, v in t.values.items()}
        elif isinstance(t, GraphQLInputObjectType):
            f["fields"] = {fn: {"type": str(fd.type), "default": dv(fd.default_value), "deprecation": fd.deprecation_reason,
                                "description": de(fd.description)} for fn, fd in t.fields.items()}
        elif isinstance(t, GraphQLScalarType):
            f["specified_by_url"] = t.specified_by_url
        out["types"][name] = f
    for dr in schema.directives:
        out["directives"][dr.name] = {"locations": [loc.name for loc in dr.locations], "repeatable": dr.is_repeatable,
                                      "args": arg_facts(dr.args), "description": de(dr.description)}
    if not with_descriptions:
        def strip(o):
            if isinstance(o, dict):
                return {k: (None if k == "description" else strip(v)) for k, v in o.items()}
            return o
        out = strip(out)
    return out


def first_diff(a, b, path=""):
    if isinstance(a, dict) and isinstance(b, dict):
        for k in list(a) + [k for k in b if k not in a]:
            if k not in a or k not in b:
                return f"{path}/{k}: {'missing in generated' if k not in a else 'only in generated'}"
            d = first_diff(a[k], b[k], f"{path}/{k}")
            if d:
                return d
        return None
    return None if a == b else f"{path}: generated {a!r} != source {b!r}"


def diff_sig(diff):
    last = diff.split(":")[0].rsplit("/", 1)[-1]
    kind = "kind"
    for word in ("default", "deprecation", "description", "locations", "repeatable", "interfaces", "members", "values",
                 "type", "specified_by_url", "roots", "field_order", "args", "fields", "directives", "types"):
        if f"/{word}" in diff:
            kind = word
    return kind


def run_case(case, scratch):
    if case.get("rejected"):
        return {"rejected": case["rejected"]}
    from ariadne_codegen.exceptions import CodeGenException
    from ariadne_codegen.main import graphql_schema

    import httpx

    feats = case["features"]
    sdl = case["sdl"]
    source_schema = build_schema(sdl)
    section = dict(case["config"])
    with_descriptions = True
    if case["source"] == "file":
        with open(os.path.join(scratch, "schema.graphql"), "w", encoding="utf-8") as fh:
            fh.write(sdl)
        section["schema_path"] = "schema.graphql"
    elif case["source"] == "dir":
        from graphql import parse as _parse, print_ast as _print_ast

        chunks = [_print_ast(dn) for dn in _parse(sdl).definitions]
        os.makedirs(os.path.join(scratch, "schema", "sub"))
        for i, ch in enumerate(chunks):
            rel = ["a.graphql", "sub/b.graphqls", "c.gql"][i % 3]
            with open(os.path.join(scratch, "schema", rel), "a", encoding="utf-8") as fh:
                fh.write(ch + "\n\n")
        section["schema_path"] = "schema"
        # the reference for a directory is the concatenation in the tool's documented (sorted) order
        from graphql import parse

        parts = []
        for dp, _dn, fn in os.walk(os.path.join(scratch, "schema")):
            for f in fn:
                parts.append(os.path.join(dp, f))
        source_schema = build_schema("\n".join(open(p, encoding="utf-8").read() for p in sorted(parts)))
    else:
        section["remote_schema_url"] = "http://schema.test/graphql"
        captured = {}

        def fake_post(url, **kw):
            captured["query"] = kw["json"]["query"]
            res = graphql_sync(source_schema, kw["json"]["query"])
            captured["data"] = res.data
            return httpx.Response(200, json={"data": res.data}, request=httpx.Request("POST", url))

        httpx.post = fake_post
    os.makedirs(os.path.dirname(os.path.join(scratch, section["target_file_path"])) or scratch, exist_ok=True)
    cfg = {"tool": {"ariadne-codegen": section}}
    buf = io.StringIO()
    failures = []
    h = hashlib.sha256(json.dumps([sdl, case["config"], case["source"]], sort_keys=True).encode()).hexdigest()[:16]
    nt_feats = set(feats)
    nontrivial = bool(nt_feats & {"default.object", "default.list", "default.enum", "dirdefault.object", "dirdefault.list", "dirdefault.enum"}) and \
        bool(nt_feats & {"sdl.custom_directive", "schema.iface_implements_iface", "schema.custom_root_name", "sdl.description_multiline"})
    sample = {"sdl": sdl[:900], "config": case["config"], "source": case["source"]}
    try:
        with redirect_stdout(buf):
            graphql_schema(cfg)
    except BaseException as exc:  # noqa: BLE001
        clause = "refused" if isinstance(exc, CodeGenException) else "internal_error"
        return {"failures": [{"clause": clause, "sig": type(exc).__name__, "msg": f"{type(exc).__name__}: {str(exc)[:400]}"}],
                "units": 1, "nt": [h] if nontrivial else [], "features": feats, "sample": sample}
    if case["source"] == "introspection":
        source_schema = build_client_schema(captured["data"])
        with_descriptions = "description" in captured["query"]
    target = os.path.join(scratch, section["target_file_path"])
    if not os.path.exists(target):
        return {"failures": [{"clause": "no_output", "sig": "", "msg": f"{section['target_file_path']} was not written"}],
                "units": 1, "features": feats, "sample": sample}
    text = open(target, encoding="utf-8").read()
    if target.lower().endswith(".py"):
        try:
            compile(text, target, "exec")
            ns = runpy.run_path(target)
        except BaseException as exc:  # noqa: BLE001
            return {"failures": [{"clause": "module_invalid", "sig": type(exc).__name__, "msg": f"{type(exc).__name__}: {str(exc)[:300]}"}],
                    "units": 1, "nt": [h] if nontrivial else [], "features": feats, "sample": sample}
        sname = section.get("schema_variable_name", "schema")
        tname = section.get("type_map_variable_name", "type_map")
        generated = ns.get(sname)
        if not isinstance(generated, GraphQLSchema) or not isinstance(ns.get(tname), dict):
            failures.append({"clause": "variable_names", "sig": "", "msg": f"variables {sname!r}/{tname!r} not defined as schema / type map: {type(ns.get(sname)).__name__}, {type(ns.get(tname)).__name__}"})
            generated = None
    else:
        try:
            generated = build_schema(text)
        except BaseException as exc:  # noqa: BLE001
            return {"failures": [{"clause": "sdl_invalid", "sig": type(exc).__name__, "msg": str(exc)[:300]}], "units": 1,
                    "nt": [h] if nontrivial else [], "features": feats, "sample": sample}
    if generated is not None:
        try:
            assert_valid_schema(source_schema)
            reference_valid = True
        except BaseException:  # noqa: BLE001
            # only possible for an introspected source: the tool's own query leaves out deprecated input
            # fields / arguments, so the schema the answer describes can be invalid by itself
            reference_valid = False
        try:
            assert_valid_schema(generated)
        except BaseException as exc:  # noqa: BLE001
            if reference_valid:
                failures.append({"clause": "generated_schema_invalid", "sig": "", "msg": str(exc)[:300]})
        fa, fb = facts(generated, with_descriptions), facts(source_schema, with_descriptions)
        diff = first_diff(fa, fb)
        if diff:
            failures.append({"clause": "structure", "sig": diff_sig(diff), "msg": diff[:500]})
        try:
            pa, pb = print_schema(generated), print_schema(source_schema)
        except BaseException as exc:  # noqa: BLE001
            pa = pb = None
            failures.append({"clause": "print_schema", "sig": type(exc).__name__, "msg": str(exc)[:300]})
        if pa != pb and not diff:
            from graphql import lexicographic_sort_schema

            if print_schema(lexicographic_sort_schema(generated)) != print_schema(lexicographic_sort_schema(source_schema)):
                failures.append({"clause": "printed_sdl", "sig": "", "msg": "print_schema differs although the structural facts agree"})
    return {"failures": failures[:4], "units": 1, "nt": [h] if nontrivial else [], "features": feats, "sample": sample}
