"""C06 - Input models accept exactly the schema's input values, with its defaults."""
import enum
import hashlib
import json

import pydantic
from graphql import (
    GraphQLInputObjectType,
    GraphQLNonNull,
    Undefined,
    assert_valid_schema,
    build_schema,
    coerce_input_value,
)
from hypothesis import strategies as st

from vf import e2e
from vf.gen_common import D
from vf.gen_ops import gen_value, spec_to_json
from vf.gen_project import base_config
from vf.gen_schema import gen_schema, render_sdl
from vf.props.c01 import values_equal

ID = "C06"
RULE = (
    "hypothesis-generated schemas rich in input objects (all wrapper combinations, enums incl. keyword-named values, "
    "nested / recursive inputs, unconfigured custom scalars, camelCase / keyword / pydantic-reserved field names) with "
    "type-directed default literals of every kind; per input type 12 (quick) / 40 (thorough) schema-valid values "
    "(checked with graphql-core coerce_input_value) fed by GraphQL names and by Python field names; refusal of values "
    "lacking a required field / null for non-null; defaults read back and compared with the coerced schema default; "
    "instances sent through a generated method and the resolver's argument compared with the reference. "
    "unit = (input type, value) or (input field with default); non-trivial = nested / list / enum / object defaults or "
    "recursive inputs; distinct by sha256(schema, type, value)."
)
ASSUMPTIONS = [
    "graphql-core coerce_input_value / the default_value of the SDL-built schema (value_from_ast) are the reference",
    "read-back normalisation: models -> by-alias dict, enum -> name; keys absent from the coerced default may be None in the model",
]


def budget(tier):
    return {"examples": 420 if tier == "quick" else 6000, "timeout": 240.0}


@st.composite
def _cases(draw):
    d = D(draw)
    desc = gen_schema(d, input_heavy=True, defaults=0.45, mutation=False, max_types=6)
    # every input type gets its own probe field + operation
    probes = []
    probed = list(desc.inputs)
    prune = len(probed) >= 2 and d.bool(0.3)
    if prune:
        # only SOME inputs are used by operations and the unused ones (and the enums only they need) are pruned:
        # whatever the used inputs need has to survive
        probed = d.sample(probed, d.int(1, len(probed) - 1))
        d.tag("cfg.prune_unused_inputs")
    for i, name in enumerate(probed):
        wrapper = d.choice(["{}", "{}!", "[{}]", "[{}!]"])
        desc.objects[desc.query]["fields"].append({"name": f"probe{i}", "type": "Int", "args": [("v", wrapper.format(name), None)]})
        probes.append((i, name, wrapper.format(name)))
    sdl = render_sdl(desc)
    try:
        schema = build_schema(sdl)
        assert_valid_schema(schema)
    except Exception as exc:  # noqa: BLE001
        return {"rejected": f"schema: {exc}"[:300], "sdl": sdl}
    queries = "\n".join(f"query Probe{i}($v: {t}) {{ probe{i}(v: $v) }}" for i, _n, t in probes) + "\n"
    values = {}
    n = draw(st.just(0))
    for _i, name, _t in probes:
        values[name] = [gen_value(d, desc, name + "!", ctx="val") for _ in range(12)]
    cfg = base_config(d, otel=False)
    if prune:
        cfg["include_all_inputs"] = False
        cfg["include_all_enums"] = False
    return {
        "sdl": sdl, "queries": queries, "config": cfg, "probes": probes, "values": values,
        "desc": {"enums": desc.enums, "inputs": {k: [list(f) for f in v] for k, v in desc.inputs.items()}, "scalars": desc.scalars},
        "ops": [{"name": f"Probe{i}", "kind": "query", "vars": [{"name": "v", "type": t, "default": None}]} for i, _n, t in probes],
        "server_seed": 1, "features": sorted(d.features),
    }


def strategy(tier):
    return _cases()


def normalise(v):
    if isinstance(v, pydantic.BaseModel):
        return {k: normalise(x) for k, x in v.model_dump(by_alias=True).items()} if False else \
            {(f.alias or n): normalise(getattr(v, n)) for n, f in type(v).model_fields.items()}
    if isinstance(v, enum.Enum):
        return v.value
    if isinstance(v, list):
        return [normalise(x) for x in v]
    if isinstance(v, dict):
        return {k: normalise(x) for k, x in v.items()}
    return v


def default_matches(coerced, got):
    """coerced schema default vs normalised model value: keys absent from the coerced default may be None"""
    if isinstance(coerced, dict) and isinstance(got, dict):
        for k, v in coerced.items():
            if k not in got or not default_matches(v, got[k]):
                return False
        return all(got[k] is None for k in got if k not in coerced)
    if isinstance(coerced, list) and isinstance(got, list):
        return len(coerced) == len(got) and all(default_matches(a, b) for a, b in zip(coerced, got))
    return values_equal(coerced, got)


def spec_by(spec, by):
    """force the construction mode (alias / name) through the whole value specification"""
    if isinstance(spec, dict) and "$i" in spec:
        return {"$i": spec["$i"], "f": {k: spec_by(v, by) for k, v in spec["f"].items()}, "by": by}
    if isinstance(spec, list):
        return [spec_by(x, by) for x in spec]
    return spec


def run_case(case, scratch):
    if case.get("rejected"):
        return {"rejected": case["rejected"]}
    feats = case["features"]
    sess = e2e.Session(case, scratch)
    if sess.failure:
        return {"failures": [sess.failure], "units": 1, "features": feats}
    schema = build_schema(case["sdl"])
    pkg = sess.pkg
    failures, nts, units, sample = [], [], 0, None

    def fail(clause, sig, msg):
        failures.append({"clause": clause, "sig": sig, "msg": msg[:500]})

    for i, tname, vtype in case["probes"]:
        gtype = schema.type_map[tname]
        cls = getattr(pkg, tname, None)
        if not (isinstance(cls, type) and issubclass(cls, pydantic.BaseModel)):
            fail("missing_class", "", f"no model class for input {tname}")
            continue
        by_alias = {(f.alias or n): n for n, f in cls.model_fields.items()}
        if set(by_alias) != set(gtype.fields):
            fail("fields", "", f"{tname}: model fields {sorted(by_alias)} vs schema {sorted(gtype.fields)}")
            continue
        recursive = any("self_recursive" in f or "forward_ref" in f for f in feats)
        # (1) acceptance + round trip, both construction modes
        for spec in case["values"][tname]:
            expected = spec_to_json(spec)
            try:
                coerce_input_value(expected, GraphQLNonNull(gtype))
            except Exception as exc:  # noqa: BLE001
                return {"harness_error": f"generated value refused by the reference: {exc} {expected}"}
            for by in ("alias", "name"):
                units += 1
                try:
                    inst = e2e.spec_to_python(pkg, spec_by(spec, by))
                except Exception as exc:  # noqa: BLE001
                    fail("schema_valid_value_refused", f"{by}:{type(exc).__name__}",
                         f"{tname} built by {by}: {str(exc)[:200]} value={json.dumps(expected)[:200]}")
                    continue
                try:
                    dumped = type(inst).model_dump(inst, mode="json", by_alias=True, exclude_unset=True)
                except Exception as exc:  # noqa: BLE001  (e.g. a field shadowing a BaseModel method)
                    fail("round_trip", by + ":raised", f"{tname} by {by}: serialising the instance raised {exc!r}")
                    continue
                if not values_equal(dumped, expected):
                    fail("round_trip", by, f"{tname} by {by}: dump {json.dumps(dumped)[:200]} != value {json.dumps(expected)[:200]}")
            if isinstance(expected, dict) and (len(expected) >= 2 or any(isinstance(v, (dict, list)) for v in expected.values())):
                nts.append(hashlib.sha256(json.dumps([case["sdl"], tname, expected], sort_keys=True).encode()).hexdigest()[:16])
            # (2) required fields / null for non-null
            for fname, fdef in gtype.fields.items():
                required = isinstance(fdef.type, GraphQLNonNull) and fdef.default_value is Undefined
                if required and fname in expected:
                    units += 1
                    lacking = {k: v for k, v in expected.items() if k != fname}
                    try:
                        cls.model_validate(lacking)
                        fail("required_field_not_enforced", "missing", f"{tname} accepted a value lacking required {fname}: {json.dumps(lacking)[:200]}")
                    except pydantic.ValidationError:
                        pass
                    except Exception as exc:  # noqa: BLE001  (e.g. a default factory of the generated model raising)
                        fail("default_read", "validate:" + type(exc).__name__, f"{tname}: validating a value raised {exc!r}")
                if isinstance(fdef.type, GraphQLNonNull) and fname in expected:
                    units += 1
                    nulled = dict(expected, **{fname: None})
                    from graphql import GraphQLScalarType, get_named_type

                    named = get_named_type(fdef.type)
                    is_any = isinstance(named, GraphQLScalarType) and named.name in case["desc"]["scalars"] \
                        and not str(fdef.type.of_type).startswith("[")
                    if is_any:
                        continue
                    try:
                        cls.model_validate(nulled)
                        fail("required_field_not_enforced", "null", f"{tname} accepted null for non-null {fname}")
                    except pydantic.ValidationError:
                        pass
                    except Exception as exc:  # noqa: BLE001
                        fail("default_read", "validate:" + type(exc).__name__, f"{tname}: validating a value raised {exc!r}")
        # (3) defaults read back
        required_only = None
        for spec in case["values"][tname]:
            exp = spec_to_json(spec)
            req = {k: v for k, v in exp.items() if isinstance(gtype.fields[k].type, GraphQLNonNull) and gtype.fields[k].default_value is Undefined}
            need = [k for k, f in gtype.fields.items() if isinstance(f.type, GraphQLNonNull) and f.default_value is Undefined]
            if set(req) == set(need):
                required_only = req
                break
        if required_only is not None:
            try:
                inst = cls.model_validate(required_only)
            except Exception as exc:  # noqa: BLE001
                fail("required_only_refused", type(exc).__name__, f"{tname}({json.dumps(required_only)[:150]}): {str(exc)[:200]}")
                inst = None
            if inst is not None:
                for fname, fdef in gtype.fields.items():
                    if fdef.default_value is Undefined or fname in required_only:
                        continue
                    units += 1
                    lit = fdef.ast_node.default_value
                    kind = type(lit).__name__.replace("ValueNode", "").lower()
                    if kind in ("list", "object", "enum"):
                        nts.append(hashlib.sha256(json.dumps([case["sdl"], tname, fname], sort_keys=True).encode()).hexdigest()[:16])
                    try:
                        got = normalise(getattr(inst, by_alias[fname]))
                    except Exception as exc:  # noqa: BLE001
                        fail("default_read", kind + ":" + type(exc).__name__, f"{tname}.{fname}: reading the default raised {exc!r}")
                        continue
                    if not default_matches(fdef.default_value, got):
                        from graphql import print_ast

                        fail("default_value", kind, f"{tname}.{fname}: {fdef.type} = {print_ast(lit)} reads back {got!r}, "
                                                    f"coerced schema default is {fdef.default_value!r}")
                # (4) what the server finally sees for the defaults
                if not vtype.startswith("["):
                    r = sess.call({"op": f"Probe{i}", "args": {"v": {"$i": tname, "f": {}, "by": "alias"}}}) if not required_only else None
                    method = e2e.method_for(sess.client, f"Probe{i}")
                    if method is not None:
                        n0 = len(sess.server.calls)
                        _v, exc = e2e.run_call(case, method, {"v": inst})
                        if len(sess.server.calls) > n0:
                            rec = sess.server.calls[n0]
                            if rec["errors"]:
                                fail("server_refused", rec["errors"][0].split("'")[0][:30], f"{tname}: {rec['errors'][0]}"[:300])
                            else:
                                seen = (rec["args"].get((f"probe{i}",)) or {}).get("v")
                                want = coerce_input_value(required_only, gtype)
                                units += 1
                                if seen != want:
                                    fail("server_sees_default", "", f"{tname}: resolver received {seen!r}, reference {want!r}")
        if sample is None and case["values"][tname]:
            sample = {"input": tname, "sdl": case["sdl"][:700], "value": spec_to_json(case["values"][tname][0])}
    seen, out = set(), []
    for f in failures:
        k = (f["clause"], f["sig"])
        if k not in seen:
            seen.add(k)
            out.append(f)
    return {"failures": out[:6], "units": units, "nt": nts, "features": feats, "sample": sample}
