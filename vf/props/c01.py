"""C01 - Result models accept and preserve every conformant response."""
import enum
import hashlib
import json
import keyword
import typing

import pydantic

from vf import e2e
from vf.gen_project import project_strategy

ID = "C01"
RULE = (
    "hypothesis-generated project (schema x 1-3 operations + fragments x {snake on/off, sync/async, "
    "plain/OpenTelemetry}); per operation 3 (quick) / 8 (thorough) responses produced by the graphql-core "
    "reference executor with drawn null rate, list lengths and runtime types. unit = (operation, response) "
    "pair; non-trivial = operation has an abstract position / fragment / alias / directive / list of objects "
    "AND the response holds >= 1 non-null nested object; distinct by sha256(schema, operation, response)."
)
ASSUMPTIONS = [
    "graphql-core 3.2.12 execute/validate is the reference for 'a response a spec-conformant server can return'",
    "pydantic model_fields / model_dump observe the generated models",
    "inputs inside regions of open known findings are excluded by construction (counted in excluded_by_known_finding)",
]
FLOORS = {"op.abstract_position": 0.3, "op.fragment_spread": 0.1, "op.alias": 0.2}


def budget(tier):
    return {"examples": 480 if tier == "quick" else 6000, "timeout": 180.0}


def strategy(tier):
    return project_strategy(
        calls_per_op=3 if tier == "quick" else 8,
        doc_kw={"n_ops": (1, 3), "n_frags": (0, 6)},
        ops_kw={"frag_p": 0.6},
        schema_kw={"defaults": 0.15},
    )


# ---------------------------------------------------------------------------- oracle


def field_path(path):
    p = list(path)
    while p and isinstance(p[-1], int):
        p.pop()
    return tuple(p)


def values_equal(a, b):
    if isinstance(a, bool) or isinstance(b, bool):
        return isinstance(a, bool) and isinstance(b, bool) and a == b
    if isinstance(a, (int, float)) and isinstance(b, (int, float)):
        return a == b or abs(a - b) <= 1e-9 * max(abs(a), abs(b))
    if isinstance(a, list) and isinstance(b, list):
        return len(a) == len(b) and all(values_equal(x, y) for x, y in zip(a, b))
    if isinstance(a, dict) and isinstance(b, dict):
        return a.keys() == b.keys() and all(values_equal(a[k], b[k]) for k in a)
    return type(a) is type(b) and a == b


def first_diff(a, b, path=()):
    """(kind, path) of the first difference between two JSON values, or None."""
    if isinstance(a, dict) and isinstance(b, dict):
        for k in a:
            if k not in b:
                return ("extra_key_in_dump", path + (k,))
        for k in b:
            if k not in a:
                return ("key_missing_in_dump", path + (k,))
        for k in a:
            d = first_diff(a[k], b[k], path + (k,))
            if d:
                return d
        return None
    if isinstance(a, list) and isinstance(b, list):
        if len(a) != len(b):
            return ("list_length", path)
        for i, (x, y) in enumerate(zip(a, b)):
            d = first_diff(x, y, path + (i,))
            if d:
                return d
        return None
    return None if values_equal(a, b) else ("value", path)


class Walk:
    def __init__(self, schema, rec):
        self.schema = schema
        self.rec = rec
        self.fails = []
        self.objects = 0

    def fail(self, clause, msg):
        if len(self.fails) < 5:
            self.fails.append({"clause": clause, "msg": msg})

    def named(self, path):
        from graphql import get_named_type, parse_type, type_from_ast

        ts = self.rec["ftypes"].get(field_path(path))
        if ts is None:
            return None
        return get_named_type(type_from_ast(self.schema, parse_type(ts)))

    def obj(self, data, obj, path):
        cls = type(obj)
        for k, v in data.items():
            cands = [n for n, f in cls.model_fields.items() if (f.alias or n) == k]
            if len(cands) != 1:
                self.fail("exposure", f"response key {k!r} at {list(path)} is exposed by {cands} of {cls.__name__}")
                continue
            py = cands[0]
            if not py.isidentifier() or keyword.iskeyword(py):
                self.fail("exposure", f"python name {py!r} for key {k!r} is not a usable identifier")
            self.value(v, getattr(obj, py), path + (k,))

    def value(self, v, got, path):
        from graphql import GraphQLEnumType, is_abstract_type

        if v is None:
            if got is not None:
                self.fail("exposure", f"null at {list(path)} exposed as {got!r}")
            return
        if isinstance(v, list) and not self._is_scalar_json(path):
            if not isinstance(got, list) or len(got) != len(v):
                self.fail("exposure", f"list at {list(path)} exposed as {type(got).__name__}")
                return
            for i, (a, b) in enumerate(zip(v, got)):
                self.value(a, b, path + (i,))
            return
        if isinstance(v, dict) and path in self.rec["rtypes"]:
            if not isinstance(got, pydantic.BaseModel):
                self.fail("exposure", f"object at {list(path)} exposed as {type(got).__name__}")
                return
            self.objects += 1
            t = self.named(path)
            if t is not None and is_abstract_type(t):
                rt = self.rec["rtypes"][path]
                f = type(got).model_fields.get("typename__")
                lits = typing.get_args(f.annotation) if f is not None else ()
                if not lits:
                    # __typename selected under an alias only: the literal sits on the field standing for that key
                    for fi in type(got).model_fields.values():
                        if fi.alias is not None and v.get(fi.alias) == rt and typing.get_origin(fi.annotation) is typing.Literal:
                            lits = typing.get_args(fi.annotation)
                            break
                    else:
                        for n, fi in type(got).model_fields.items():
                            if fi.alias is None and v.get(n) == rt and typing.get_origin(fi.annotation) is typing.Literal:
                                lits = typing.get_args(fi.annotation)
                                break
                if rt not in lits:
                    self.fail("typename", f"runtime type {rt} at {list(path)} validated as {type(got).__name__} "
                                          f"whose __typename literal is {list(lits)}")
            self.obj(v, got, path)
            return
        t = self.named(path)
        if isinstance(t, GraphQLEnumType):
            ok = isinstance(got, enum.Enum) and got.value == v and (
                got.name == v or (keyword.iskeyword(v) and got.name == v + "_")
            ) and type(got).__name__ == t.name
            if not ok:
                self.fail("exposure", f"enum value {v!r} of {t.name} at {list(path)} exposed as {got!r}")
            return
        if not values_equal(v, got):
            self.fail("exposure", f"value {v!r} at {list(path)} exposed as {got!r}")

    def _is_scalar_json(self, path):
        """a JSON list that is the raw value of a custom scalar (not a GraphQL list)"""
        from graphql import GraphQLScalarType

        ts = self.rec["ftypes"].get(field_path(path))
        if ts is None:
            return False
        depth = len(path) - len(field_path(path))
        return ts.count("[") <= depth and isinstance(self.named(path), GraphQLScalarType)


def sig_of(msg):
    import re

    m = re.search(r"is exposed by \[(.*?)\] of", msg)
    if m:
        return "key_not_exposed" if not m.group(1) else "key_ambiguous"
    types = sorted(set(re.findall(r"type=(\w+)", msg)))
    if types:
        return "pydantic:" + ",".join(types)

    return re.sub(r"[0-9]+", "N", re.sub(r"'[^']*'|\"[^\"]*\"|\[[^\]]*\]", "_", msg))[:80]


def evaluate_call(pkg, case, server, client, transport, op, call, nt_features):
    """One (operation, response) pair.  Returns (failures, nontrivial_hash_or_None, sample)."""
    fails = []
    method = e2e.method_for(client, op["name"])
    if method is None:
        return [{"clause": "method", "sig": "no-method", "msg": f"no unique method for operation {op['name']}"}], None, None
    kwargs = {}
    for var, spec in call["args"].items():
        p = e2e.param_for(method, var)
        if p is None:
            return [{"clause": "method", "sig": "no-param", "msg": f"no unique parameter for ${var} of {op['name']}"}], None, None
        try:
            kwargs[p] = e2e.spec_to_python(pkg, spec)
        except Exception as exc:  # noqa: BLE001
            return [{"clause": "argument_build", "sig": type(exc).__name__, "msg": f"{var}: {exc}"[:300]}], None, None
    n0 = len(server.calls)
    value, exc = e2e.run_call(case, method, kwargs)
    rec = server.calls[n0] if len(server.calls) > n0 else None
    if rec is None:
        return [{"clause": "no_request", "sig": type(exc).__name__ if exc else "none",
                 "msg": f"{op['name']}: no request reached the server: {exc!r}"[:400]}], None, None
    if rec["errors"]:
        # the reference server refused the request: C02/C03 territory, but the response is then not
        # a data response, so C01 has nothing to judge
        return [{"clause": "server_refused", "sig": sig_of(rec["errors"][0]), "msg": f"{op['name']}: {rec['errors'][0]}"[:400]}], None, None
    data = rec["data"]
    if exc is not None:
        return [{"clause": "acceptance", "sig": type(exc).__name__ + ":" + sig_of(str(exc)),
                 "msg": f"{op['name']} rejected a conformant response: {str(exc)[:300]} data={json.dumps(data)[:300]}"}], None, None
    w = Walk(server.schema, rec)
    if not isinstance(value, pydantic.BaseModel):
        w.fail("exposure", f"method returned {type(value).__name__}")
    else:
        w.obj(data, value, ())
        try:
            dumped = value.model_dump(mode="json", by_alias=True, exclude_unset=True)
            diff = first_diff(dumped, data)
            if diff:
                w.fails.append({"clause": "round_trip", "sig": diff[0],
                                "msg": f"{diff[0]} at {list(diff[1])}: dump {json.dumps(dumped)[:250]} != data {json.dumps(data)[:250]}"})
        except Exception as exc2:  # noqa: BLE001
            w.fail("round_trip", f"model_dump raised {exc2!r}"[:300])
    for f in w.fails:
        f.setdefault("sig", sig_of(f["msg"]))
        f["msg"] = f"{op['name']}: " + f["msg"]
    nt = None
    if nt_features and rec["objects"] > 1:
        nt = hashlib.sha256(json.dumps([case["sdl"], op["name"], case["queries"], data], sort_keys=True, default=repr).encode()).hexdigest()[:16]
    sample = {"operation": op["name"], "response": json.dumps(data)[:400]}
    return w.fails, nt, sample


NT_FEATURES = {"op.abstract_position", "op.fragment_spread", "op.inline_fragment", "op.alias",
               "op.directive_literal", "op.directive_var", "op.list_of_objects"}


def run_case(case, scratch):
    if case.get("rejected"):
        return {"rejected": case["rejected"]}
    gen = e2e.generate(case, scratch)
    if not gen["ok"]:
        return {"failures": [{"clause": "generation", "sig": gen["sig"], "msg": f"{gen['type']}: {gen['msg']}"}],
                "units": 1, "features": case["features"]}
    try:
        pkg = e2e.import_package(case, scratch)
    except BaseException as exc:  # noqa: BLE001
        return {"failures": [{"clause": "import", "sig": type(exc).__name__, "msg": repr(exc)[:400]}],
                "units": 1, "features": case["features"]}
    server = e2e.server_for(case)
    transport = e2e.Transport(lambda body, req: (200, server.handle(body)[0]))
    client = e2e.make_client(pkg, case, transport)
    ops = {o["name"]: o for o in case["ops"]}
    failures, nts, units, sample = [], [], 0, None
    nt_feat = bool(NT_FEATURES & set(case["features"]))
    for call in case["calls"]:
        op = ops[call["op"]]
        if op["kind"] == "subscription":
            continue
        fs, nt, smp = evaluate_call(pkg, case, server, client, transport, op, call, nt_feat)
        units += 1
        failures.extend(fs)
        if nt:
            nts.append(nt)
            if sample is None and smp:
                sample = dict(smp, sdl=case["sdl"][:600], queries=case["queries"][:600], config=case["config"])
    return {"failures": failures[:6], "units": units, "nt": nts, "features": case["features"], "sample": sample}
