"""C11 - Requests are well-formed, uploads follow the multipart spec, clients agree."""
import asyncio
import datetime
import email
import email.policy
import enum
import hashlib
import io
import json
import threading
from typing import List, Optional

import httpx
import pydantic
from hypothesis import strategies as st

from vf import baseclient as bc
from vf.gen_common import D

ID = "C11"
ISOLATE = False
RULE = (
    "hypothesis-drawn (query, operationName, variables tree, kwargs); variables trees over JSON scalars, None, dicts, "
    "lists, models of the bundled BaseModel (aliases, unset fields), enum/datetime leaves, top-level UNSET and Upload "
    "objects at any depth (shared / distinct). Each case runs on all 8 client variants (4 classes x tracer "
    "none/NoOp/recording) and is compared with a reference encoder written from the GraphQL-over-HTTP JSON layout and "
    "the GraphQL multipart request spec, and differentially between variants; concurrent cases park k<=6 requests and "
    "release them in a drawn order. unit = (case, variant); non-trivial = an Upload below the top level or shared, a "
    "model with unset fields, or a concurrent case with k>=3; distinct by sha256 of the case."
)
ASSUMPTIONS = [
    "reference encoder: JSON body {query, operationName, variables}; multipart parts operations/map/<index> per the "
    "GraphQL multipart request specification; stdlib email parser decodes multipart bodies",
    "where the statement is silent (model nested in a plain dict, UNSET below the top level) only the differential clause applies",
    "the asyncio schedule (release order of parked requests) and a coarse thread schedule are owned by the harness; "
    "preemption inside httpx/CPython is not explored",
]


class Color(str, enum.Enum):
    RED = "RED"
    BLUE = "BLUE"


def models():
    bm = bc.base_model()
    from pydantic import Field

    ns = {}

    class Inner(bm.BaseModel):
        file: Optional[bm.Upload] = None
        x_alias: Optional[int] = Field(alias="xAlias", default=None)
        color: Optional[Color] = None
        files: Optional[List[Optional[bm.Upload]]] = None

    class Outer(bm.BaseModel):
        inner: Optional[Inner] = None
        inners: Optional[List[Inner]] = None
        name_: Optional[str] = Field(alias="name", default=None)
        when: Optional[datetime.datetime] = None
        attachment: Optional[bm.Upload] = None

    ns["Inner"], ns["Outer"] = Inner, Outer
    return ns


_MODELS = None


def get_models():
    global _MODELS
    if _MODELS is None:
        _MODELS = models()
    return _MODELS


# ---------------------------------------------------------------- value specs
LEAF = st.one_of(st.none(), st.booleans(), st.integers(-3, 3), st.sampled_from([0.5, -1.25, 1e10]),
                 st.sampled_from(["", "abc", 'q"uote', "zażółć", "a\nb"]))
KEYS = st.sampled_from(["a", "b", "file", "files", "nested", "x.y", "0", "input", "名"])


def gen_tree(d, depth, ctx):
    """ctx: 'top' (direct value of a variable), 'list' (inside lists only, from top), 'deep' (inside a dict)."""
    kind = d.weighted([(5, "leaf"), (3, "upload"), (2, "list"), (2, "dict"), (2, "model"), (1, "enum"), (1, "dt")])
    if depth >= 3 and kind in ("list", "dict", "model"):
        kind = "leaf"
    if kind == "leaf":
        return d.draw(LEAF)
    if kind == "upload":
        d.tag("upload")
        if ctx != "top":
            d.tag("upload.nested")
        return {"$upload": d.int(0, 2)}
    if kind == "enum":
        d.tag("leaf.enum")
        return {"$enum": d.choice(["RED", "BLUE"])}
    if kind == "dt":
        d.tag("leaf.datetime")
        return {"$dt": d.choice(["2020-01-02T03:04:05", "1999-12-31T23:59:59"])}
    if kind == "list":
        return [gen_tree(d, depth + 1, ctx if ctx in ("top", "list") and ctx != "deep" else "deep") if False else
                gen_tree(d, depth + 1, "list" if ctx in ("top", "list") else "deep") for _ in range(d.int(0, 3))]
    if kind == "dict":
        out = {}
        for _ in range(d.int(0, 3)):
            out[d.draw(KEYS)] = gen_tree(d, depth + 1, "deep")
        return {"$dict": out}
    # model
    if ctx == "deep":
        d.tag("silent.model_in_dict")
    d.tag("model")
    return gen_model(d, depth)


def gen_model(d, depth, which=None):
    which = which or d.choice(["Outer", "Inner"])
    f = {}
    if which == "Inner":
        if d.bool(0.5):
            f["file"] = {"$upload": d.int(0, 2)} if d.bool(0.7) else None
            if f["file"]:
                d.tag("upload", "upload.nested")
        if d.bool(0.5):
            f["xAlias"] = d.int(-2, 2)
        if d.bool(0.3):
            f["color"] = {"$enum": d.choice(["RED", "BLUE"])}
        if d.bool(0.3):
            f["files"] = [({"$upload": d.int(0, 2)} if d.bool(0.7) else None) for _ in range(d.int(0, 3))]
            if any(f["files"]):
                d.tag("upload", "upload.nested")
    else:
        if d.bool(0.5) and depth < 3:
            f["inner"] = gen_model(d, depth + 1, "Inner")
        if d.bool(0.3) and depth < 3:
            f["inners"] = [gen_model(d, depth + 1, "Inner") for _ in range(d.int(0, 2))]
        if d.bool(0.5):
            f["name"] = d.choice(["n", "", None])
        if d.bool(0.3):
            f["when"] = {"$dt": "2020-01-02T03:04:05"}
        if d.bool(0.3):
            f["attachment"] = {"$upload": d.int(0, 2)}
            d.tag("upload", "upload.nested")
    if len(f) < (4 if which == "Inner" else 5):
        d.tag("model.unset_fields")
    return {"$model": which, "f": f}


@st.composite
def _cases(draw):
    d = D(draw)
    variables = None
    if d.bool(0.9):
        variables = {}
        for _ in range(d.int(0, 4)):
            name = d.draw(st.sampled_from(["id", "input", "file", "files", "data", "x", "flag"]))
            if d.bool(0.12):
                variables[name] = {"$unset": True}
                d.tag("unset.top")
            else:
                variables[name] = gen_tree(d, 0, "top")
    kwargs = {}
    if d.bool(0.4):
        h = {}
        for _ in range(d.int(1, 2)):
            h[d.choice(["X-Custom", "Authorization", "x-lower", "Accept"])] = d.choice(["v1", "Bearer t", "*/*"])
        if d.bool(0.3):
            key = "Content-Type"
            if d.bool(0.4) and d.enabled("hdr.content_type_case"):
                key = d.choice(["content-type", "CONTENT-TYPE"])
            h[key] = d.choice(["application/json", "application/graphql+json", "text/plain"])
            d.tag("hdr.content_type_override")
        kwargs["headers"] = h
        d.tag("kwargs.headers")
    if "upload" in d.features and "headers" in kwargs:
        # a caller-supplied Content-Type only makes sense for the JSON path (the statement says so);
        # with uploads the boundary-carrying multipart content type must be httpx's
        kwargs["headers"] = {k: v for k, v in kwargs["headers"].items() if k.lower() != "content-type"}
        d.features.discard("hdr.content_type_override")
    if d.bool(0.2):
        kwargs["timeout"] = d.choice([1.0, 5, None])
        d.tag("kwargs.timeout")
    uploads = [
        {"filename": d.choice(["a.txt", "b.png", "ü.bin"]), "content_type": d.choice(["text/plain", "image/png"]),
         "content": d.choice(["hello", "", "\x00\x01binary\xff", "x" * 300])}
        for _ in range(3)
    ]
    case = {
        "query": d.choice(["query Q { a }", "mutation M($file: Upload!) { up(file: $file) }", "{ x }", "query Ü { a }"]),
        "operation_name": d.choice(["Q", "M", None, ""]),
        "variables": variables,
        "kwargs": kwargs,
        "uploads": uploads,
    }
    if d.bool(0.2):
        case["concurrent"] = {"k": d.int(2, 6), "order": None}
        case["concurrent"]["order"] = d.shuffle(list(range(case["concurrent"]["k"])))
        d.tag("concurrent")
        if case["concurrent"]["k"] >= 3:
            d.tag("concurrent.k>=3")
    if "concurrent" not in case and d.bool(0.3):
        # a HISTORY of calls on one client that share the caller's kwargs object (as users do with a common
        # headers dict); the other calls' variables are drawn independently (with / without uploads)
        others = []
        for _ in range(d.int(1, 3)):
            v = {}
            for _i in range(d.int(0, 3)):
                v[d.draw(st.sampled_from(["id", "input", "file", "files", "data"]))] = gen_tree(d, 0, "top")
            others.append(v)
        case["history"] = {"others": others, "position": d.int(0, len(others))}
        d.tag("history")
        if "$upload" in json.dumps(others) and "headers" in kwargs:
            # a caller-supplied Content-Type is only meaningful on the JSON path (see above)
            kwargs["headers"] = {k: v for k, v in kwargs["headers"].items() if k.lower() != "content-type"}
    # what the server answers: the property also demands identical OUTCOMES of the four clients, and get_data() is where
    # they classify (which outcome is the right one is C12's business - here only their agreement is judged)
    case["response"] = {"status": d.choice([200, 200, 200, 201, 204, 301, 304, 400, 404, 500, 503]),
                        "body": d.choice(["data", "data", "errors", "errors_and_data", "not_json", "empty", "no_data_key"])}
    d.tag(f"response.{case['response']['status'] // 100}xx", "response." + case["response"]["body"])
    case["features"] = sorted(d.features)
    return case


RESPONSE_BODIES = {
    "data": b'{"data": {"ok": true}}',
    "errors": b'{"errors": [{"message": "boom"}]}',
    "errors_and_data": b'{"data": {"ok": null}, "errors": [{"message": "partial", "path": ["ok"]}]}',
    "not_json": b"<html>no</html>",
    "empty": b"",
    "no_data_key": b'{"ok": true}',
}


def scripted_response(case):
    r = case.get("response") or {"status": 200, "body": "data"}  # (replay files older than the member)
    return httpx.Response(r["status"], content=RESPONSE_BODIES[r["body"]], headers={"Content-Type": "application/json"})


def strategy(tier):
    return _cases()


def budget(tier):
    return {"examples": 2500 if tier == "quick" else 40000, "timeout": 120.0}


# ---------------------------------------------------------------- instantiate / reference


def instantiate(spec, uploads):
    bm = bc.base_model()
    if isinstance(spec, list):
        return [instantiate(x, uploads) for x in spec]
    if isinstance(spec, dict):
        if "$upload" in spec:
            return uploads[spec["$upload"]]
        if "$enum" in spec:
            return Color(spec["$enum"])
        if "$dt" in spec:
            return datetime.datetime.fromisoformat(spec["$dt"])
        if "$unset" in spec:
            return bm.UNSET
        if "$dict" in spec:
            return {k: instantiate(v, uploads) for k, v in spec["$dict"].items()}
        if "$model" in spec:
            cls = get_models()[spec["$model"]]
            return cls.model_validate({k: instantiate(v, uploads) for k, v in spec["f"].items()})
    return spec


def reference(spec, path, files):
    """Reference serialisation of a variables value; records Upload positions in `files` {idx: [paths]}."""
    if isinstance(spec, list):
        return [reference(x, f"{path}.{i}", files) for i, x in enumerate(spec)]
    if isinstance(spec, dict):
        if "$upload" in spec:
            files.setdefault(spec["$upload"], []).append(path)
            return None
        if "$enum" in spec:
            return spec["$enum"]
        if "$dt" in spec:
            return spec["$dt"]
        if "$dict" in spec:
            return {k: reference(v, f"{path}.{k}", files) for k, v in spec["$dict"].items()}
        if "$model" in spec:
            return {k: reference(v, f"{path}.{k}", files) for k, v in spec["f"].items()}
    return spec


def reference_variables(variables):
    files = {}
    out = {}
    for k, v in (variables or {}).items():
        if isinstance(v, dict) and "$unset" in v:
            continue
        out[k] = reference(v, f"variables.{k}", files)
    return out, files


def make_uploads(case):
    bm = bc.base_model()
    return [bm.Upload(filename=u["filename"], content=io.BytesIO(u["content"].encode("latin-1", "replace")),
                      content_type=u["content_type"]) for u in case["uploads"]]


def decode_request(request):
    """(content type without boundary, decoded body) of a captured httpx.Request."""
    ctype = request.headers.get("content-type", "")
    body = request.content
    if ctype.startswith("multipart/form-data"):
        msg = email.message_from_bytes(b"Content-Type: " + ctype.encode() + b"\r\n\r\n" + body, policy=email.policy.HTTP)
        parts = []
        for part in msg.iter_parts():
            disp = part.get("content-disposition")
            params = dict(part["content-disposition"].params) if disp else {}
            parts.append({
                "name": params.get("name"), "filename": params.get("filename"),
                "content_type": part.get_content_type() if part.get("content-type") else None,
                "payload": part.get_payload(decode=True),
            })
        return "multipart/form-data", parts
    try:
        return ctype, json.loads(body)
    except ValueError:
        return ctype, body


def check_request(case, request):
    """Reference-encoder clauses.  Returns list of (clause, msg)."""
    bad = []
    variables, files = reference_variables(case["variables"])
    expected_ops = {"query": case["query"], "operationName": case["operation_name"], "variables": variables}
    ctype, body = decode_request(request)
    if request.method != "POST" or str(request.url) != "http://verif.test/graphql":
        bad.append(("request_line", f"{request.method} {request.url}"))
    caller = (case["kwargs"].get("headers") or {})
    for k, v in caller.items():
        if k.lower() == "content-type":
            continue
        if request.headers.get(k) != v:
            bad.append(("caller_header", f"caller header {k}={v!r} sent as {request.headers.get(k)!r}"))
    if not files:
        want_ct = "application/json"
        for k, v in caller.items():
            if k.lower() == "content-type":
                want_ct = v
        if ctype != want_ct:
            bad.append(("content_type", f"Content-Type {ctype!r}, expected {want_ct!r} (caller headers {caller})"))
        if body != expected_ops or (isinstance(body, dict) and list(body) != ["query", "operationName", "variables"]):
            bad.append(("json_body", f"body {str(body)[:300]} != expected {str(expected_ops)[:300]}"))
        return bad
    if ctype != "multipart/form-data":
        bad.append(("content_type", f"uploads present but Content-Type is {ctype!r}"))
        return bad
    names = [p["name"] for p in body]
    by_name = {p["name"]: p for p in body}
    if len(names) != len(set(names)) or "operations" not in by_name or "map" not in by_name:
        bad.append(("multipart_parts", f"parts {names}"))
        return bad
    try:
        ops = json.loads(by_name["operations"]["payload"])
        fmap = json.loads(by_name["map"]["payload"])
    except ValueError as exc:
        bad.append(("multipart_parts", f"operations/map not JSON: {exc}"))
        return bad
    if ops != expected_ops:
        bad.append(("operations", f"operations {str(ops)[:300]} != expected {str(expected_ops)[:300]}"))
    file_parts = [n for n in names if n not in ("operations", "map")]
    if sorted(file_parts) != sorted(fmap):
        bad.append(("map", f"file parts {file_parts} vs map keys {list(fmap)}"))
        return bad
    if len(fmap) != len(files):
        bad.append(("map", f"{len(fmap)} files sent for {len(files)} distinct Upload objects: {fmap}"))
    want = {frozenset(paths): idx for idx, paths in files.items()}
    for key, paths in fmap.items():
        if not isinstance(paths, list) or len(set(paths)) != len(paths) or frozenset(paths) not in want:
            bad.append(("map", f"map entry {key}: {paths} is not the path set of one Upload; expected {files}"))
            continue
        u = case["uploads"][want[frozenset(paths)]]
        part = by_name[key]
        if part["payload"] != u["content"].encode("latin-1", "replace") or part["filename"] != u["filename"] \
                or part["content_type"] != u["content_type"]:
            bad.append(("file_part", f"part {key} ({part['filename']}, {part['content_type']}, {part['payload'][:30]!r}) "
                                     f"does not carry upload {u['filename']}"))
    return bad


def run_solo(case, variant):
    captured = []

    def handler(request):
        request.read()
        captured.append(request)
        return scripted_response(case)

    if variant[3]:
        async def ahandler(request):
            await request.aread()
            captured.append(request)
            return scripted_response(case)
        client = bc.make(variant, ahandler)
    else:
        client = bc.make(variant, handler)
    uploads = make_uploads(case)
    variables = None if case["variables"] is None else {k: instantiate(v, uploads) for k, v in case["variables"].items()}
    resp, exc = bc.execute(client, variant, case["query"], case["operation_name"], variables, dict(case["kwargs"]))
    if exc is None and resp is not None:
        try:
            resp._vf_outcome = "data:" + json.dumps(client.get_data(resp), sort_keys=True)[:80]
        except Exception as e:  # noqa: BLE001  the documented outcomes are exceptions of the package
            resp._vf_outcome = "raises:" + type(e).__name__
    return captured, resp, exc


def canon_request(request):
    ctype, body = decode_request(request)
    hdrs = sorted((k.lower(), v) for k, v in request.headers.items()
                  if k.lower() not in ("content-type", "content-length", "host", "user-agent", "accept-encoding", "connection"))
    return json.dumps([request.method, str(request.url), ctype, hdrs, body], default=repr, sort_keys=True)


def run_concurrent(case, variant):
    """k copies of the call (distinguished by an extra variable) on ONE client; requests are parked and released in
    the drawn order; each call must receive its own response and send the request it sends alone."""
    k, order = case["concurrent"]["k"], case["concurrent"]["order"]
    bad = []

    def vars_for(i):
        uploads = make_uploads(case)
        v = {} if case["variables"] is None else {kk: instantiate(vv, uploads) for kk, vv in case["variables"].items()}
        v["__call"] = i
        return v

    def kwargs_for(i):
        kw = dict(case["kwargs"])
        kw["headers"] = dict(kw.get("headers") or {}, **{f"X-Call-{i}": "1"})
        return kw

    def who(request):
        ctype, body = decode_request(request)
        if ctype == "multipart/form-data":
            ops = json.loads({p["name"]: p for p in body}["operations"]["payload"])
            return ops["variables"]["__call"]
        return body["variables"]["__call"]

    seen = {}
    if variant[3]:
        async def main():
            gates = {i: asyncio.Event() for i in range(k)}
            arrived = asyncio.Event()
            count = [0]

            async def handler(request):
                await request.aread()
                i = who(request)
                seen[i] = request
                count[0] += 1
                if count[0] == k:
                    arrived.set()
                await gates[i].wait()
                return httpx.Response(200, json={"data": {"call": i}})

            client = bc.make(variant, handler)
            tasks = [asyncio.ensure_future(client.execute(case["query"], operation_name=case["operation_name"],
                                                          variables=vars_for(i), **kwargs_for(i))) for i in range(k)]
            await asyncio.wait_for(arrived.wait(), 20)
            for i in order:
                gates[i].set()
                await asyncio.sleep(0)
            return await asyncio.gather(*tasks)

        responses = asyncio.run(main())
    else:
        gates = {i: threading.Event() for i in range(k)}
        lock = threading.Lock()
        arrived = threading.Event()
        count = [0]

        def handler(request):
            request.read()
            i = who(request)
            with lock:
                seen[i] = request
                count[0] += 1
                if count[0] == k:
                    arrived.set()
            gates[i].wait(20)
            return httpx.Response(200, json={"data": {"call": i}})

        client = bc.make(variant, handler)
        responses = [None] * k

        def worker(i):
            responses[i] = client.execute(case["query"], operation_name=case["operation_name"],
                                          variables=vars_for(i), **kwargs_for(i))

        threads = [threading.Thread(target=worker, args=(i,)) for i in range(k)]
        for t in threads:
            t.start()
        arrived.wait(20)
        for i in order:
            gates[i].set()
        for t in threads:
            t.join(20)
    for i in range(k):
        r = responses[i]
        if r is None or r.json() != {"data": {"call": i}}:
            bad.append(("concurrent_response", f"call {i} received {None if r is None else r.text[:100]}"))
        if i not in seen:
            bad.append(("concurrent_request", f"call {i}: no request"))
    # each request equals the solo request of the same call
    for i in range(k):
        solo_case = dict(case, variables=dict(case["variables"] or {}, __call=i), kwargs=kwargs_for(i))
        solo_case.pop("concurrent")
        cap, _, _ = run_solo(solo_case, variant)
        if i in seen and cap and canon_request(cap[0]) != canon_request(seen[i]):
            bad.append(("concurrent_request", f"call {i} sent a different request concurrently than alone"))
    return bad


def run_history(case, variant):
    """sequence of calls on ONE client sharing ONE kwargs object; every request must equal the request the same
    call sends alone on a fresh client with fresh kwargs, and the caller's kwargs must come back unchanged"""
    import copy

    bad = []
    seq = list(case["history"]["others"])
    seq.insert(case["history"]["position"], case["variables"])
    shared_kwargs = copy.deepcopy(case["kwargs"])
    before = copy.deepcopy(shared_kwargs)
    captured = []
    if variant[3]:
        async def ahandler(request):
            await request.aread()
            captured.append(request)
            return httpx.Response(200, json={"data": {"ok": True}})
        client = bc.make(variant, ahandler)
    else:
        def handler(request):
            request.read()
            captured.append(request)
            return httpx.Response(200, json={"data": {"ok": True}})
        client = bc.make(variant, handler)
    for i, vspec in enumerate(seq):
        uploads = make_uploads(case)
        variables = None if vspec is None else {k: instantiate(v, uploads) for k, v in vspec.items()}
        n0 = len(captured)
        kw = dict(shared_kwargs)  # the caller passes the same header dict object every time
        resp, exc = bc.execute(client, variant, case["query"], case["operation_name"], variables, kw)
        solo_case = dict(case, variables=vspec)
        solo_case.pop("history", None)
        cap, _r, exc2 = run_solo(solo_case, variant)
        if (exc is None) != (exc2 is None) or (len(captured) > n0) != bool(cap):
            bad.append(("history_outcome", f"step {i}: in sequence {exc!r}, alone {exc2!r}"))
        elif cap and canon_request(cap[0]) != canon_request(captured[n0]):
            bad.append(("history_request", f"step {i} of a call sequence sharing the caller's kwargs sent a different request than alone: "
                                           f"{canon_request(captured[n0])[:200]} vs {canon_request(cap[0])[:200]}"))
    if shared_kwargs != before:
        bad.append(("caller_kwargs_mutated", f"the caller's kwargs were changed by the calls: {shared_kwargs} (before {before})"))
    # the caller's VARIABLES object sent twice (a retry): it must come back unchanged and the second request must
    # equal the first
    if case["variables"] is not None:
        uploads = make_uploads(case)
        variables = {k: instantiate(v, uploads) for k, v in case["variables"].items()}
        frozen = freeze(variables)
        reqs = []
        for _ in range(2):
            n0 = len(captured)
            _resp, exc = bc.execute(client, variant, case["query"], case["operation_name"], variables, dict(shared_kwargs))
            reqs.append((canon_request(captured[n0]) if len(captured) > n0 else None, type(exc).__name__ if exc else None))
        if freeze(variables) != frozen:
            bad.append(("caller_variables_mutated", f"the caller's variables were changed by execute(): {freeze(variables)!r}"[:300] +
                        f" (before {frozen!r})"[:200]))
        if reqs[0] != reqs[1]:
            bad.append(("retry_request", f"the same variables object sent twice gave different requests: {str(reqs[0])[:160]} vs {str(reqs[1])[:160]}"))
    return bad


def freeze(obj):
    """comparable image of a variables tree; Upload objects by identity"""
    base = bc.base_model()
    if isinstance(obj, base.Upload):
        return ("upload", id(obj))
    if isinstance(obj, dict):
        return ("dict", tuple((k, freeze(v)) for k, v in obj.items()))
    if isinstance(obj, (list, tuple)):
        return ("list", tuple(freeze(v) for v in obj))
    if isinstance(obj, pydantic.BaseModel):
        return ("model", type(obj).__name__, tuple((n, freeze(getattr(obj, n))) for n in type(obj).model_fields), tuple(sorted(obj.model_fields_set)))
    return ("leaf", repr(obj))


def run_case(case, scratch):
    failures, nts, units = [], [], 0
    feats = set(case["features"])
    silent = any(f.startswith("silent.") for f in feats)
    h = hashlib.sha256(json.dumps({k: case[k] for k in ("query", "operation_name", "variables", "kwargs", "uploads")},
                                  sort_keys=True, default=repr).encode()).hexdigest()[:14]
    nontrivial = bool(feats & {"upload.nested", "model.unset_fields", "concurrent.k>=3", "history"})
    canon = {}
    outcomes = {}
    for variant in bc.VARIANTS:
        units += 1
        if nontrivial:
            nts.append(f"{h}:{variant[0]}")
        try:
            captured, resp, exc = run_solo(case, variant)
        except BaseException as e:  # noqa: BLE001
            failures.append({"clause": "crash", "sig": type(e).__name__, "msg": f"{variant[0]}: {e!r}"[:300]})
            continue
        outcomes[variant[0]] = ("exc:" + type(exc).__name__) if exc is not None else \
            f"status:{resp.status_code} get_data->{getattr(resp, '_vf_outcome', '?')}"
        if exc is not None:
            canon[variant[0]] = "exception"
            if not silent:
                failures.append({"clause": "execute_raised", "sig": type(exc).__name__, "msg": f"{variant[0]}: {exc!r}"[:300]})
            continue
        if len(captured) != 1:
            failures.append({"clause": "request_count", "sig": str(len(captured)), "msg": f"{variant[0]} sent {len(captured)} requests"})
            continue
        canon[variant[0]] = canon_request(captured[0])
        if not silent:
            for clause, msg in check_request(case, captured[0]):
                failures.append({"clause": clause, "sig": variant[0] if clause in ("json_body", "operations") else "", "msg": f"{variant[0]}: {msg}"[:500]})
        if "history" in case and not silent:
            try:
                for clause, msg in run_history(case, variant):
                    failures.append({"clause": clause, "sig": "", "msg": f"{variant[0]}: {msg}"[:500]})
            except BaseException as e:  # noqa: BLE001
                failures.append({"clause": "history_crash", "sig": type(e).__name__, "msg": f"{variant[0]}: {e!r}"[:300]})
        if "concurrent" in case and variant[0] in ("async", "sync", "async_otel_rec", "sync_otel_rec"):
            try:
                for clause, msg in run_concurrent(case, variant):
                    failures.append({"clause": clause, "sig": "", "msg": f"{variant[0]}: {msg}"[:300]})
            except BaseException as e:  # noqa: BLE001
                failures.append({"clause": "concurrent_crash", "sig": type(e).__name__, "msg": f"{variant[0]}: {e!r}"[:300]})
    if len(set(canon.values())) > 1 or len(set(outcomes.values())) > 1:
        groups = {}
        for k, v in canon.items():
            groups.setdefault(v, []).append(k)
        failures.append({"clause": "differential", "sig": "variants_disagree",
                         "msg": f"variants disagree: {[(g, c[:200]) for c, g in groups.items()]} outcomes={outcomes}"[:900]})
    # dedupe per clause
    seen, out = set(), []
    for f in failures:
        key = (f["clause"], f["sig"])
        if key not in seen:
            seen.add(key)
            out.append(f)
    sample = {"variables": case["variables"], "kwargs": case["kwargs"], "operation_name": case["operation_name"],
              "concurrent": case.get("concurrent")}
    return {"failures": out[:5], "units": units, "nt": nts, "features": case["features"], "sample": sample}
