"""C02 - The document sent is the document written."""
import hashlib
import importlib
import json

from graphql import (
    FieldNode,
    FragmentDefinitionNode,
    FragmentSpreadNode,
    InlineFragmentNode,
    OperationDefinitionNode,
    build_schema,
    get_named_type,
    is_abstract_type,
    parse,
    print_ast,
    specified_rules,
    validate,
)

from vf import e2e
from vf.gen_common import D
from vf.gen_project import base_config, project_strategy
from vf.gen_schema import canon

ID = "C02"
RULE = (
    "hypothesis-generated projects with the literal generator turned up (string classes: quotes, backslashes, tabs, "
    "unicode BMP/astral, '#', '=', braces, triple quotes, block strings, long strings), fragment graphs (nested, shared, "
    "on interfaces/unions, unused), @mixin on fields and fragment definitions, with and without ExtractOperationsPlugin. "
    "Every captured request is parsed, validated against the user's schema with the full specified rule set and compared "
    "by AST equality with the authored operation + reachable fragments after undoing the two documented rewrites. "
    "unit = operation call; non-trivial = a non-alphanumeric string literal, a fragment spread or a @mixin; distinct by "
    "sha256(authored document, operation)."
)
ASSUMPTIONS = [
    "graphql-core parse / validate / Node.__eq__ (no_location) decide syntax, validity and AST equality",
    "documented rewrites: automatic __typename as first selection of abstract-typed selection sets; removal of @mixin",
    "the relative order of fragment definitions after the operation is not part of the statement (compared as a set by name)",
]
FLOORS = {"op.fragment_spread": 0.1, "op.literal_arg": 0.3}

EXTRACT = "ariadne_codegen.contrib.extract_operations.ExtractOperationsPlugin"


def budget(tier):
    return {"examples": 400 if tier == "quick" else 6000, "timeout": 180.0}


def _config(d):
    cfg = base_config(d)
    if d.bool(0.3):
        cfg["plugins"] = [EXTRACT]
        d.tag("plugin.extract_operations")
    return cfg


def strategy(tier):
    return project_strategy(
        calls_per_op=1, mixins=True, config_fn=_config,
        doc_kw={"n_ops": (1, 3), "n_frags": (0, 5)},
        ops_kw={"var_p": 0.35, "frag_p": 0.6, "local_var_names": True},
        schema_kw={"defaults": 0.1}, subscriptions_if_async=True,
    )


# ------------------------------------------------------------------ normalisation


def plain_typename(node):
    return (
        isinstance(node, FieldNode) and node.name.value == "__typename" and node.alias is None
        and not node.arguments and not node.directives and node.selection_set is None
    )


class Undo:
    """Walk the sent definition next to the authored one and undo the documented rewrites on copies."""

    def __init__(self, schema, authored_fragments):
        self.schema = schema
        self.problems = []

    def field_type(self, parent, name):
        if parent is None or name == "__typename" or not hasattr(parent, "fields"):
            return None
        f = parent.fields.get(name)
        return get_named_type(f.type) if f else None

    def selset(self, sent, authored, parent):
        """returns the normalised list of sent selections"""
        s = list(sent.selections)
        a = list(authored.selections) if authored is not None else []
        if len(s) == len(a) + 1 and plain_typename(s[0]):
            # exactly one extra selection and it is a leading plain __typename: the automatic one,
            # allowed only in selection sets of abstract type
            if parent is None or not is_abstract_type(parent):
                self.problems.append(f"__typename added to a selection set of non-abstract type {getattr(parent, 'name', None)}")
            s = s[1:]
        out = []
        for i, node in enumerate(s):
            au = a[i] if i < len(a) else None
            out.append(self.selection(node, au, parent))
        return out

    def selection(self, node, au, parent):
        if isinstance(node, FieldNode) and node.selection_set is not None:
            t = self.field_type(parent, node.name.value)
            au_ss = au.selection_set if isinstance(au, FieldNode) else None
            node.selection_set.selections = tuple(self.selset(node.selection_set, au_ss, t))
        elif isinstance(node, InlineFragmentNode):
            t = self.schema.type_map.get(node.type_condition.name.value) if node.type_condition else parent
            au_ss = au.selection_set if isinstance(au, InlineFragmentNode) else None
            node.selection_set.selections = tuple(self.selset(node.selection_set, au_ss, t))
        return node

    def definition(self, sent, authored):
        if isinstance(sent, OperationDefinitionNode):
            root = self.schema.get_root_type(sent.operation)
        else:
            root = self.schema.type_map.get(sent.type_condition.name.value)
        sent.selection_set.selections = tuple(self.selset(sent.selection_set, authored.selection_set if authored else None, root))
        return sent


def strip_mixin(node):
    """authored side: remove @mixin directives everywhere (fields and fragment definitions)"""
    from graphql import Visitor, visit

    class V(Visitor):
        def enter(self, n, *_):
            if getattr(n, "directives", None):
                n.directives = tuple(d for d in n.directives if d.name.value != "mixin")

    visit(node, V())
    return node


def reachable(op, fragments):
    seen, todo = set(), [op]
    while todo:
        n = todo.pop()
        stack = [n.selection_set]
        while stack:
            ss = stack.pop()
            for sel in ss.selections:
                if isinstance(sel, FragmentSpreadNode):
                    name = sel.name.value
                    if name not in seen and name in fragments:
                        seen.add(name)
                        todo.append(fragments[name])
                elif sel.selection_set is not None:
                    stack.append(sel.selection_set)
    return seen


def first_difference(a, b, path="doc"):
    """human-readable location of the first AST difference"""
    if type(a) is not type(b):
        return f"{path}: {type(a).__name__} vs {type(b).__name__}"
    if hasattr(a, "keys") and hasattr(a, "to_dict"):
        for k in a.keys:
            if k == "loc":
                continue
            d = first_difference(getattr(a, k), getattr(b, k), f"{path}.{k}")
            if d:
                return d
        return None
    if isinstance(a, (list, tuple)):
        if len(a) != len(b):
            return f"{path}: {len(a)} vs {len(b)} items"
        for i, (x, y) in enumerate(zip(a, b)):
            d = first_difference(x, y, f"{path}[{i}]")
            if d:
                return d
        return None
    return None if a == b else f"{path}: {a!r} vs {b!r}"


def check_sent(case, schema, authored_doc, op_name, body):
    """Returns list of (clause, sig, msg)."""
    bad = []
    query = body.get("query") if isinstance(body, dict) else None
    if not isinstance(query, str):
        return [("body", "no-query", f"request body has no query string: {str(body)[:200]}")]
    try:
        sent = parse(query, no_location=True)
    except Exception as exc:  # noqa: BLE001
        return [("syntax", "parse", f"sent query does not parse: {exc}"[:300])]
    # validate a parse WITH locations: graphql-core's overlapping-fields rule keys caches by node, and
    # location-free nodes that are structurally equal would be conflated (false conflicts)
    errs = validate(schema, parse(query), specified_rules)
    if errs:
        bad.append(("validity", errs[0].message.split("'")[0][:40], f"sent query invalid under the full rule set: {errs[0].message}"[:300]))
    ops = [d for d in sent.definitions if isinstance(d, OperationDefinitionNode)]
    if len(ops) != 1 or not ops[0].name or body.get("operationName") != ops[0].name.value or ops[0].name.value != op_name:
        bad.append(("operation_name", "", f"operations={[o.name.value if o.name else None for o in ops]} operationName={body.get('operationName')!r} expected {op_name}"))
        return bad
    a_ops = {d.name.value: d for d in authored_doc.definitions if isinstance(d, OperationDefinitionNode)}
    a_frags = {d.name.value: d for d in authored_doc.definitions if isinstance(d, FragmentDefinitionNode)}
    a_op = a_ops[op_name]
    want_frags = reachable(a_op, a_frags)
    if not isinstance(sent.definitions[0], OperationDefinitionNode):
        bad.append(("layout", "op-not-first", "the operation is not the first definition of the sent document"))
    s_frags = {d.name.value: d for d in sent.definitions if isinstance(d, FragmentDefinitionNode)}
    n_fr = sum(1 for d in sent.definitions if isinstance(d, FragmentDefinitionNode))
    if set(s_frags) != want_frags or n_fr != len(s_frags):
        bad.append(("fragments", "missing" if want_frags - set(s_frags) else "extra",
                    f"fragment definitions sent {sorted(s_frags)} (x{n_fr}) but reachable from the operation are {sorted(want_frags)}"))
    undo = Undo(schema, a_frags)
    pairs = [(ops[0], a_op)] + [(s_frags[n], a_frags[n]) for n in sorted(set(s_frags) & want_frags)]
    for s_def, a_def in pairs:
        a_norm = strip_mixin(parse(print_ast(a_def), no_location=True).definitions[0])
        s_norm = undo.definition(s_def, a_norm)
        if s_norm != a_norm:
            where = first_difference(s_norm, a_norm) or "?"
            kind = where.rsplit(".", 1)[-1].split(":")[0].split("[")[0]
            bad.append(("faithfulness", kind, f"{getattr(a_def.name, 'value', '?')}: sent differs from authored at {where}; sent={print_ast(s_norm)[:200]!r}"))
    for p in undo.problems:
        bad.append(("typename_rewrite", "non-abstract", p))
    return bad


def run_case(case, scratch):
    if case.get("rejected"):
        return {"rejected": case["rejected"]}
    feats = case["features"]
    sess = e2e.Session(case, scratch)
    if sess.failure:
        return {"failures": [sess.failure], "units": 1, "features": feats}
    schema = build_schema(case["sdl"])
    authored = parse(case["queries"], no_location=True)
    failures, nts, units, sample = [], [], 0, None
    nt_case = any(f.startswith("oplitstr.") and f != "oplitstr.alnum" for f in feats) or "op.fragment_spread" in feats \
        or "op.mixin_field" in feats or "op.mixin_fragment" in feats
    extract = EXTRACT in (case["config"].get("plugins") or [])
    for call in case["calls"]:
        r = sess.call(call)  # subscriptions: the subscribe payload of a scripted websocket stands for the body
        units += 1
        if r["problem"]:
            if r["problem"]["clause"] != "argument_build":
                failures.append(r["problem"])
            continue
        if r["request"] is None:
            failures.append({"clause": "no_request", "sig": type(r["exc"]).__name__, "msg": f"{call['op']}: {r['exc']!r}"[:300]})
            continue
        try:
            body = json.loads(r["request"].content)
        except ValueError:
            failures.append({"clause": "body", "sig": "not-json", "msg": "request body is not JSON"})
            continue
        for clause, sig, msg in check_sent(case, schema, authored, call["op"], body):
            failures.append({"clause": clause, "sig": sig, "msg": f"{call['op']}: {msg}"[:600]})
        if extract:
            try:
                opsmod = importlib.import_module(sess.pkg.__name__ + ".operations")
                consts = {k: v for k, v in vars(opsmod).items() if k.endswith("_GQL")}
                mine = [v for k, v in consts.items() if canon(k[:-4]) == canon(call["op"])]
                if len(mine) != 1 or mine[0] != body["query"]:
                    failures.append({"clause": "extract_constant", "sig": "", "msg": f"{call['op']}: operations module constant differs from what is sent"})
            except Exception as exc:  # noqa: BLE001
                failures.append({"clause": "extract_module", "sig": type(exc).__name__, "msg": repr(exc)[:300]})
        if nt_case:
            nts.append(hashlib.sha256((case["queries"] + call["op"]).encode()).hexdigest()[:16])
            if sample is None:
                sample = {"operation": call["op"], "authored": case["queries"][:700], "sent": str(body.get("query", ""))[:700]}
    seen, out = set(), []
    for f in failures:
        k = (f["clause"], f["sig"])
        if k not in seen:
            seen.add(k)
            out.append(f)
    return {"failures": out[:5], "units": units, "nt": nts, "features": feats, "sample": sample}
