"""C19 - The schema source does not change the generated client."""
import ast
import hashlib
import importlib
import json
import os
import sys

import httpx
from graphql import assert_valid_schema, build_schema, graphql_sync, parse, print_ast
from hypothesis import strategies as st

from vf import e2e, findings
from vf.gen_common import D
from vf.gen_project import RULES, base_config
from vf.gen_ops import OpGen
from vf.gen_schema import gen_schema, render_sdl_rich
from vf.props.c06 import normalise

ID = "C19"
EXHAUSTIVE = False
RULE = (
    "hypothesis-generated decorated schemas (input defaults, descriptions, directives, deprecations, extend type) x "
    "operations; the SAME schema is delivered as one SDL file, as a directory tree partitioned at definition granularity "
    "into 1-6 files with drawn names / sub-directories / extensions .graphql/.graphqls/.gql (extensions possibly in "
    "another file than the type they extend), and through introspection answered by graphql-core running the tool's own "
    "query. Oracle: result modules, fragments, client module byte-identical; enums / input classes identical per class; "
    "input fields agree on requiredness and default. Fault classes of the introspection path are enumerated: each must "
    "raise IntrospectionError, write nothing, and the captured request must carry the configured headers ($ENV "
    "substituted) and the TLS flag. unit = (project, delivery pair) or fault case; non-trivial = >= 3 files with a "
    "sub-directory, or a schema with input defaults; distinct by sha256(inputs, delivery)."
)
ASSUMPTIONS = [
    "differential oracle between deliveries; graphql-core serves the introspection query",
    "order of classes inside enums / input_types modules follows the order of definitions in the source and is not part "
    "of 'the same client': those modules are compared class by class",
]


def budget(tier):
    return {"examples": 200 if tier == "quick" else 3000, "timeout": 400.0}


@st.composite
def _cases(draw):
    d = D(draw)
    desc = gen_schema(d, defaults=0.4 if d.bool(0.7) else 0.0, input_heavy=d.bool(0.6))
    scalar_cfg = None
    if desc.scalars and d.bool(0.5):
        # a configured custom scalar with builtin parse / serialize functions (no files needed): annotations become
        # Annotated[...] wrappers, which the default / requiredness logic has to see through for every schema source
        scalar_cfg = {desc.scalars[0]: {"type": "str", "serialize": "str", "parse": "str"}}
        d.tag("cfg.scalar_with_serialize")
        if desc.inputs:
            first = sorted(desc.inputs)[0]
            if not any(f[0] == "plainScalar" for f in desc.inputs[first]):
                desc.inputs[first].append(("plainScalar", desc.scalars[0], None))  # nullable, no list, no default
    sdl = render_sdl_rich(d, desc, deprecations=d.bool(0.5), schema_block_p=0.7)
    try:
        schema = build_schema(sdl)
        assert_valid_schema(schema)
    except Exception as exc:  # noqa: BLE001
        return {"rejected": f"schema: {exc}"[:300], "sdl": sdl}
    og = OpGen(d, schema, desc, var_p=0.5, frag_p=0.4)
    ops, queries = og.gen_document(n_ops=(1, 3), n_frags=(0, 3))
    if not ops:
        return {"rejected": "no operation"}
    from graphql import validate

    errs = validate(schema, parse(queries), RULES)
    if errs:
        return {"rejected": "queries invalid: " + errs[0].message[:200]}
    defs = [print_ast(n) for n in parse(sdl).definitions]
    k = d.int(1, min(6, len(defs)))
    # same base names in different sub-directories, sibling directories, nesting
    names = d.shuffle(["a", "b", "types/c", "types/inputs/d", "z", "m/n", "m/a", "types/a", "other/c", "types/inputs/b",
                       ".shared/e", "types/.private/f"])[:k]
    tree = {}
    assign = [d.int(0, k - 1) for _ in defs]
    for i, text in enumerate(defs):
        tree.setdefault(names[assign[i]], []).append(text)
    tree = {n + d.choice([".graphql", ".graphqls", ".gql"]): "\n\n".join(v) + "\n" for n, v in tree.items()}
    if len(tree) >= 3 and any("/" in n for n in tree):
        d.tag("tree.multi_subdir")
    if any(part.startswith(".") for n in tree for part in n.split("/")[:-1]):
        d.tag("tree.dot_named_directory")
    tree_root = d.weighted([(5, "schema_tree"), (1, ".work/schema_tree"), (1, "deep/../schema_tree")])
    if tree_root != "schema_tree":
        d.tag("tree.root_with_dot_component")
    bases = [os.path.basename(n) for n in tree]
    if len(set(bases)) < len(bases):
        d.tag("tree.same_basename_in_two_dirs")
    if any(f[2] is not None for fs in desc.inputs.values() for f in fs):
        d.tag("schema.input_defaults")
    cfg = base_config(d, otel=False)
    if scalar_cfg:
        cfg["scalars"] = scalar_cfg
    headers = {}
    if d.bool(0.5):
        headers = {"Authorization": "$VF_TOKEN", "X-Plain": "v", "X-Mid": "k3y$VF_TOKEN!9", "X-Brace": "sig=${VF_TOKEN}"}
        d.tag("intro.headers")
    return {"kind": "deliveries", "sdl": sdl, "queries": queries, "config": cfg, "tree": tree, "tree_root": tree_root, "headers": headers,
            "verify": d.bool(0.5), "ops": [{"name": o["name"], "kind": o["kind"], "vars": o["vars"]} for o in ops],
            "features": sorted(d.features)}


def strategy(tier):
    return _cases()


def _complete_introspection_with_errors():
    from graphql import get_introspection_query, graphql_sync

    data = graphql_sync(build_schema("type Query { a: Int }"), get_introspection_query(descriptions=False)).data
    return json.dumps({"data": data, "errors": [{"message": "partial failure"}]}).encode()


SECRET = "$2b$12$KIXsecret"  # the value of the referenced variable itself starts with "$": substituted once, not twice


FAULTS = [
    # errors next to a COMPLETE introspection result: ignoring the errors would generate a client quietly
    ("errors_with_complete_data", _complete_introspection_with_errors()),
    ("invalid_url", None), ("status_301", 301), ("status_400", 400), ("status_401", 401),
    ("status_500", 500), ("non_json", b"<html>"), ("json_array", b"[1]"), ("json_string", b'"x"'), ("no_data_key", b'{"foo": 1}'),
    ("errors_present", b'{"data": {"__schema": null}, "errors": [{"message": "nope"}]}'), ("data_null", b'{"data": null}'),
    ("data_list", b'{"data": [1]}'), ("data_without_schema", b'{"data": {"x": 1}}'),
    ("truncated_types", b'{"data": {"__schema": {"queryType": {"name": "Query"}, "types": []}}}'),
]


def enumerate_cases(tier):
    open_tr = findings.open_triggers()
    for label, payload in FAULTS:
        for strategy_name in ("client", "graphqlschema"):
            for env_header in (True, False):
                kf = open_tr.get("introfault." + label)
                if kf:
                    yield {"_excluded": kf}
                    continue
                yield {"kind": "fault", "label": label, "strategy": strategy_name, "env_header": env_header,
                       "verify": label != "status_500"}


# ------------------------------------------------------------------ deliveries


def gen_child(case, scratch, delivery):
    """generate one delivery in its own process; introspection is served by graphql-core"""
    pid = os.fork()
    if pid == 0:
        code = 0
        try:
            cfg = dict(case["config"], target_package_name="pkg_" + delivery, include_comments="none", queries_path="queries.graphql")
            with open(os.path.join(scratch, "queries.graphql"), "w", encoding="utf-8") as fh:
                fh.write(case["queries"])
            if delivery == "file":
                with open(os.path.join(scratch, "schema_one.graphql"), "w", encoding="utf-8") as fh:
                    fh.write(case["sdl"])
                cfg["schema_path"] = "schema_one.graphql"
            elif delivery == "dir":
                root = case.get("tree_root", "schema_tree")
                for rel, text in case["tree"].items():
                    path = os.path.join(scratch, root, rel)
                    os.makedirs(os.path.dirname(path), exist_ok=True)
                    with open(path, "w", encoding="utf-8") as fh:
                        fh.write(text)
                cfg["schema_path"] = root
            else:
                source = build_schema(case["sdl"])
                cfg["remote_schema_url"] = "http://schema.test/graphql"
                cfg["remote_schema_headers"] = case["headers"]
                cfg["remote_schema_verify_ssl"] = case["verify"]
                os.environ["VF_TOKEN"] = SECRET
                seen = {}

                def fake_post(url, **kw):
                    seen.update(url=url, headers=dict(kw.get("headers") or {}), verify=kw.get("verify"))
                    with open(os.path.join(scratch, "intro_request.json"), "w") as fh:
                        json.dump(seen, fh)
                    res = graphql_sync(source, kw["json"]["query"])
                    return httpx.Response(200, json={"data": res.data}, request=httpx.Request("POST", url))

                httpx.post = fake_post
            from ariadne_codegen.main import client
            import io
            from contextlib import redirect_stdout

            try:
                with redirect_stdout(io.StringIO()):
                    client({"tool": {"ariadne-codegen": cfg}})
            except BaseException as exc:  # noqa: BLE001
                with open(os.path.join(scratch, f"gen_error_{delivery}.json"), "w") as fh:
                    json.dump({"type": type(exc).__name__, "msg": str(exc)[:400], "sig": e2e.exc_sig(exc)}, fh)
                code = 1
        except BaseException:  # noqa: BLE001
            code = 2
        finally:
            os._exit(code)
    _p, status = os.waitpid(pid, 0)
    return os.waitstatus_to_exitcode(status)


def class_sources(path):
    text = open(path, encoding="utf-8").read()
    tree = ast.parse(text)
    return {n.name: ast.get_source_segment(text, n) for n in tree.body if isinstance(n, ast.ClassDef)}


def input_facts(pkg, module):
    import pydantic

    mod = importlib.import_module(f"{pkg}.{module}")
    out = {}
    for name, cls in vars(mod).items():
        if isinstance(cls, type) and issubclass(cls, pydantic.BaseModel) and cls.__module__ == mod.__name__:
            fields = {}
            for fn, f in cls.model_fields.items():
                try:
                    default = "REQUIRED" if f.is_required() else json.dumps(normalise(f.get_default(call_default_factory=True)), sort_keys=True, default=repr)
                except Exception as exc:  # noqa: BLE001
                    default = f"ERROR:{type(exc).__name__}"
                fields[f.alias or fn] = default
            out[name] = fields
    return out


def run_deliveries(case, scratch):
    feats = case["features"]
    for delivery in ("file", "dir", "intro"):
        if gen_child(case, scratch, delivery) == 2:
            return {"harness_error": f"generation child for {delivery} crashed"}
    errs = {d: json.load(open(os.path.join(scratch, f"gen_error_{d}.json"))) for d in ("file", "dir", "intro")
            if os.path.exists(os.path.join(scratch, f"gen_error_{d}.json"))}
    if "file" in errs:
        if all(d in errs for d in ("dir", "intro")):  # every delivery fails alike: C04's business
            return {"rejected": "every delivery fails (C04 territory): " + errs["file"]["msg"][:120]}
        ok = [d for d in ("dir", "intro") if d not in errs]
        if ok:
            return {"failures": [{"clause": "delivery_fails", "sig": "file:" + errs["file"]["type"],
                                  "msg": f"single-file delivery fails ({errs['file']['type']}: {errs['file']['msg'][:200]}) although the "
                                         f"{' / '.join(ok)} delivery of the same schema generates a client"}],
                    "units": 1, "features": feats}
        return {"rejected": "single-file delivery fails (C04 territory): " + errs["file"]["msg"][:120]}
    failures, nts, units = [], [], 0
    h = hashlib.sha256(json.dumps([case["sdl"], case["queries"], case["config"], case["tree"]], sort_keys=True).encode()).hexdigest()[:14]
    nontrivial = "tree.multi_subdir" in feats or "schema.input_defaults" in feats

    def fail(clause, sig, msg):
        failures.append({"clause": clause, "sig": sig, "msg": msg[:500]})

    sys.path.insert(0, scratch)
    cfg = case["config"]
    enums_mod, inputs_mod = cfg.get("enums_module_name", "enums"), cfg.get("input_types_module_name", "input_types")
    base_dir = os.path.join(scratch, "pkg_file")
    base_inputs = None
    open_tr = findings.open_triggers()
    counters = {}
    src = build_schema(case["sdl"])
    from graphql import GraphQLInputObjectType, Undefined

    has_depr_inputs = any(
        (isinstance(t, GraphQLInputObjectType) and any(f.deprecation_reason is not None for f in t.fields.values()))
        or (hasattr(t, "fields") and not isinstance(t, GraphQLInputObjectType)
            and any(a.deprecation_reason is not None for f in t.fields.values() for a in f.args.values()))
        for n, t in src.type_map.items() if not n.startswith("__"))
    has_defaults = any(isinstance(t, GraphQLInputObjectType) and any(f.default_value is not Undefined for f in t.fields.values())
                       for t in src.type_map.values())
    skip_defaults = False
    for other in ("dir", "intro"):
        if other == "intro" and has_depr_inputs and open_tr.get("introspection.deprecated_inputs"):
            k = "excluded:" + open_tr["introspection.deprecated_inputs"]
            counters[k] = counters.get(k, 0) + 1
            continue
        if other == "intro" and has_defaults and open_tr.get("introspection.input_defaults"):
            k = "excluded:" + open_tr["introspection.input_defaults"]
            counters[k] = counters.get(k, 0) + 1
            skip_defaults = True
        units += 1
        if nontrivial:
            nts.append(f"{h}:{other}")
        if other in errs:
            fail("delivery_fails", other + ":" + errs[other]["type"], f"{other} delivery: {errs[other]['type']}: {errs[other]['msg']}")
            continue
        odir = os.path.join(scratch, "pkg_" + other)
        bfiles, ofiles = sorted(os.listdir(base_dir)), sorted(os.listdir(odir))
        if bfiles != ofiles:
            fail("file_set", other, f"{other}: files {sorted(set(bfiles) ^ set(ofiles))} differ")
        for fn in bfiles:
            if not fn.endswith(".py") or fn not in ofiles:
                continue
            a = open(os.path.join(base_dir, fn), encoding="utf-8").read().replace("pkg_file", "PKG")
            b = open(os.path.join(odir, fn), encoding="utf-8").read().replace("pkg_" + other, "PKG")
            if fn in (enums_mod + ".py", inputs_mod + ".py"):
                ca, cb = class_sources(os.path.join(base_dir, fn)), class_sources(os.path.join(odir, fn))
                if fn == enums_mod + ".py" and ca != cb:
                    diff = sorted(k for k in set(ca) | set(cb) if ca.get(k) != cb.get(k))
                    fail("enums_differ", other, f"{other}: enum classes {diff[:4]} differ from the single-file delivery")
                if fn == inputs_mod + ".py" and set(ca) != set(cb):
                    fail("input_classes_differ", other, f"{other}: input classes {sorted(set(ca) ^ set(cb))}")
                continue
            if fn == "__init__.py":
                continue  # re-export order follows class order of enums / inputs
            if a != b:
                kind = "client" if fn == cfg.get("client_file_name", "client") + ".py" else ("fragments" if "fragments" in fn else "result_or_other")
                fail("module_differs", other + ":" + kind, f"{other}: {fn} differs from the single-file delivery")
        # input models: requiredness + defaults
        try:
            if base_inputs is None:
                base_inputs = input_facts("pkg_file", inputs_mod)
            facts = input_facts("pkg_" + other, inputs_mod)
        except BaseException as exc:  # noqa: BLE001
            fail("import", other, f"{other}: {exc!r}")
            continue
        for cname, fields in base_inputs.items():
            for fname, default in fields.items():
                if other == "intro" and skip_defaults:
                    # KF-C19-1 concerns fields that HAVE a schema default; all other fields are still compared
                    gt = src.type_map.get(cname)
                    gf = gt.fields.get(fname) if isinstance(gt, GraphQLInputObjectType) else None
                    if gf is None or gf.default_value is not Undefined:
                        continue
                got = facts.get(cname, {}).get(fname, "ABSENT")
                if got != default:
                    kind = "field_absent" if got == "ABSENT" else ("requiredness" if "REQUIRED" in (got, default) else "default")
                    fail("input_" + kind, other, f"{other}: {cname}.{fname}: {got} vs single-file {default}")
        if other == "intro":
            req = json.load(open(os.path.join(scratch, "intro_request.json")))
            want = {k: (SECRET if v == "$VF_TOKEN" else v) for k, v in case["headers"].items()}
            if req["headers"] != want or req["verify"] is not case["verify"] or req["url"] != "http://schema.test/graphql":
                fail("introspection_request", "", f"sent headers={req['headers']} verify={req['verify']} url={req['url']}; configured {want} / {case['verify']}")
    seen, out = set(), []
    for f in failures:
        k = (f["clause"], f["sig"])
        if k not in seen:
            seen.add(k)
            out.append(f)
    sample = {"tree_files": sorted(case["tree"]), "headers": case["headers"], "queries": case["queries"][:400], "sdl": case["sdl"][:500]}
    return {"failures": out[:6], "units": units, "nt": nts, "features": feats, "sample": sample, "counters": counters}


# ------------------------------------------------------------------ faults


def run_fault(case, scratch):
    from ariadne_codegen.exceptions import IntrospectionError
    from ariadne_codegen.main import client, graphql_schema

    label = case["label"]
    payload = dict(FAULTS)[label]
    url = "http://schema.test/graphql"
    seen = {}

    def fake_post(u, **kw):
        seen.update(url=u, headers=dict(kw.get("headers") or {}), verify=kw.get("verify"))
        if label == "invalid_url":
            raise httpx.InvalidURL("bad url")
        if label == "connect_error":
            raise httpx.ConnectError("refused")
        if isinstance(payload, int):
            return httpx.Response(payload, content=b"{}", request=httpx.Request("POST", u))
        return httpx.Response(200, content=payload, request=httpx.Request("POST", u))

    httpx.post = fake_post
    os.environ["VF_TOKEN"] = SECRET
    headers = {"Authorization": "$VF_TOKEN", "X-Plain": "v", "X-Mid": "k3y$VF_TOKEN!9", "X-Brace": "sig=${VF_TOKEN}"} if case["env_header"] else {"X-Plain": "v"}
    section = {"remote_schema_url": url, "remote_schema_headers": headers, "remote_schema_verify_ssl": case["verify"]}
    with open(os.path.join(scratch, "queries.graphql"), "w") as fh:
        fh.write("query Q { __typename }\n")
    if case["strategy"] == "client":
        section["queries_path"] = "queries.graphql"
        target = os.path.join(scratch, "graphql_client")
        fn = client
    else:
        section["target_file_path"] = "schema_out.py"
        target = os.path.join(scratch, "schema_out.py")
        fn = graphql_schema
    before = sorted(os.listdir(scratch))
    exc = None
    import io
    from contextlib import redirect_stdout

    try:
        with redirect_stdout(io.StringIO()):
            fn({"tool": {"ariadne-codegen": section}})
    except BaseException as e:  # noqa: BLE001
        exc = e
    failures = []
    if not isinstance(exc, IntrospectionError):
        failures.append({"clause": "fault_not_introspection_error", "sig": label + ":" + type(exc).__name__,
                         "msg": f"{label} ({case['strategy']}): {type(exc).__name__ if exc else 'no error'}: {str(exc)[:200]}"})
    if os.path.exists(target) or sorted(os.listdir(scratch)) != before:
        failures.append({"clause": "fault_side_effect", "sig": label, "msg": f"{label}: files written: {sorted(set(os.listdir(scratch)) - set(before))}"})
    want = {k: (SECRET if v == "$VF_TOKEN" else v) for k, v in headers.items()}
    if seen and (seen["headers"] != want or seen["verify"] is not case["verify"] or seen["url"] != url):
        failures.append({"clause": "introspection_request", "sig": "", "msg": f"{label}: sent headers={seen.get('headers')} verify={seen.get('verify')}"})
    nt = [f"fault:{label}:{case['strategy']}:{case['env_header']}"]
    return {"failures": failures, "units": 1, "nt": nt, "features": ["fault." + label],
            "sample": {"fault": label, "strategy": case["strategy"], "outcome": repr(exc)[:150]}}


def run_case(case, scratch):
    if case.get("rejected"):
        return {"rejected": case["rejected"]}
    if case["kind"] == "fault":
        return run_fault(case, scratch)
    return run_deliveries(case, scratch)
