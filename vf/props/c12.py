"""C12 - Every HTTP response is classified into exactly one documented outcome."""
import hashlib

import httpx
import itertools
import json

from hypothesis import strategies as st

from vf import baseclient as bc
from vf.gen_common import D

ID = "C12"
ISOLATE = False
EXHAUSTIVE = True
EXHAUSTIVE_SUBDOMAIN = (
    "decision table: 11 status codes x every body class (non-JSON, invalid UTF-8, JSON scalar/array/null, {}, "
    "data/errors combinations, each with and without extra keys) x 8 client variants, enumerated completely"
)
RULE = (
    "bounded-exhaustive table status x body class, each evaluated on the 8 client variants (4 classes x tracer "
    "none/NoOp/recording), plus hypothesis-drawn data / errors contents, plus generated-method cases (fork) fed the "
    "same table. unit = (status, body, client variant); non-trivial = body has both data and errors, or non-2xx with "
    "a GraphQL-shaped body, or extra keys; distinct by sha256(status, body bytes, variant)."
)
ASSUMPTIONS = [
    "the reference classifier is a transcription of the property statement (precedence: status, JSON object, keys, "
    "non-empty errors, data)",
    "bodies whose 'errors' member is not a list of objects carrying 'message' are outside the precondition and not generated",
]

CONTENT_TYPES = ["application/json", "application/graphql-response+json; charset=utf-8", "text/plain; charset=utf-8", None,
                 "application/json", "text/html", "application/octet-stream"]
STATUSES = [200, 201, 204, 299, 300, 301, 400, 401, 404, 419, 499, 500, 503, 520, 599]  # incl. codes http.HTTPStatus does not know
DATAS = [{"a": 1}, {}, {"x": None, "y": [1, {"z": "w"}]}, {"n": {"m": {"k": [None, 1.5, "s"]}}}]
ERR_OBJS = [
    {"message": "boom"},
    {"message": "m2", "locations": [{"line": 1, "column": 2}]},
    {"message": "m3", "path": ["a", 0, "b"]},
    {"message": "m4", "extensions": {"code": "X", "n": 1}},
    {"message": "m5", "locations": [{"line": 3, "column": 4}], "path": ["q"], "extensions": {}, "other": 1},
    # serialisers that write absent members as explicit nulls
    {"message": "m6", "locations": None, "path": None, "extensions": None},
]
ERRS = [[ERR_OBJS[0]], [ERR_OBJS[1], ERR_OBJS[2]], [ERR_OBJS[3], ERR_OBJS[4], ERR_OBJS[0]], [ERR_OBJS[5]], [ERR_OBJS[3], ERR_OBJS[5]]]


def body_table():
    """(class label, bytes)"""
    out = [
        ("empty", b""),
        ("text", b"<html>oops</html>"),
        ("invalid_utf8", b'{"data": "\xff\xfe"}'),
        ("json_string", b'"data"'),
        ("json_number", b"5"),
        ("json_array", b'[{"data": 1}]'),
        ("json_null", b"null"),
        ("json_true", b"true"),
        ("obj_empty", b"{}"),
        ("obj_other_keys", b'{"extensions": {"a": 1}, "dat": 1}'),
    ]

    def add(label, obj):
        out.append((label, json.dumps(obj).encode()))
        out.append((label + "+extra", json.dumps(dict(obj, extensions={"t": 1}, unknownKey=[1])).encode()))

    for i, dval in enumerate(DATAS):
        add(f"data{i}", {"data": dval})
    add("data_null", {"data": None})
    add("errors_empty", {"errors": []})
    for i, e in enumerate(ERRS):
        add(f"errors{i}", {"errors": e})
        add(f"data+errors{i}", {"data": DATAS[i % len(DATAS)], "errors": e})
        add(f"data_null+errors{i}", {"data": None, "errors": e})
    add("data+errors_empty", {"data": DATAS[0], "errors": []})
    return out


def classify(status, content):
    """Reference classifier (transcription of the statement)."""
    if not 200 <= status <= 299:
        return ("http", status)
    try:
        body = json.loads(content)
    except ValueError:
        return ("invalid",)
    if not isinstance(body, dict) or ("data" not in body and "errors" not in body):
        return ("invalid",)
    errors = body.get("errors")
    if errors:
        return ("multi", errors, body.get("data"))
    return ("data", body.get("data"))


def check_outcome(expected, value, exc, content):
    """Compare what get_data did with the reference classification; returns failure msg or None."""
    ex = bc.exceptions()
    if expected[0] == "http":
        if not isinstance(exc, ex.GraphQLClientHttpError) or type(exc) is not ex.GraphQLClientHttpError:
            return "outcome", f"expected GraphQLClientHttpError, got {exc!r} / {value!r}"
        if exc.status_code != expected[1] or exc.response.status_code != expected[1] or exc.response.content != content:
            return "attributes", f"http error carries status {exc.status_code}"
        return None
    if expected[0] == "invalid":
        if type(exc) is not ex.GraphQLClientInvalidResponseError:
            return "outcome", f"expected GraphQLClientInvalidResponseError, got {exc!r} / {value!r}"
        if exc.response.content != content:
            return "attributes", "invalid-response error does not carry the response"
        return None
    if expected[0] == "multi":
        if type(exc) is not ex.GraphQLClientGraphQLMultiError:
            return "outcome", f"expected GraphQLClientGraphQLMultiError, got {exc!r} / {value!r}"
        errors, data = expected[1], expected[2]
        if len(exc.errors) != len(errors):
            return "attributes", f"{len(exc.errors)} errors carried, {len(errors)} reported"
        for got, want in zip(exc.errors, errors):
            if type(got) is not ex.GraphQLClientGraphQLError:
                return "attributes", f"error object is {type(got).__name__}"
            if (got.message, got.locations, got.path, got.extensions, got.original) != (
                want["message"], want.get("locations"), want.get("path"), want.get("extensions"), want,
            ):
                return "attributes", f"error fields differ: {got.__dict__} vs {want}"
        if exc.data != data:
            return "attributes", f"partial data {exc.data!r} != {data!r}"
        return None
    if exc is not None:
        return "outcome", f"expected data, got {exc!r}"
    if value != expected[1] or type(value) is not type(expected[1]):
        return "data", f"returned {value!r} instead of {expected[1]!r}"
    return None


def enumerate_cases(tier):
    for status, (label, content) in itertools.product(STATUSES, body_table()):
        yield {"kind": "table", "status": status, "label": label, "content": content.decode("latin-1")}
    # the generated-method part (fork): a small fixed project, the same table
    for async_ in (True, False):
        for otel in (False, True):
            yield {"kind": "e2e", "_isolate": True, "async": async_, "otel": otel}


def budget(tier):
    return {"examples": 1500 if tier == "quick" else 30000, "timeout": 180.0}


JSON_LEAF = st.one_of(st.none(), st.booleans(), st.integers(-5, 5), st.floats(allow_nan=False, allow_infinity=False, width=32),
                      st.text(max_size=6))
JSON_VAL = st.recursive(JSON_LEAF, lambda c: st.one_of(st.lists(c, max_size=3), st.dictionaries(st.text(max_size=4), c, max_size=3)),
                        max_leaves=8)


@st.composite
def _drawn(draw):
    d = D(draw)
    status = d.choice(STATUSES + [202, 250, 302, 418, 502])
    body = {}
    if d.bool(0.7):
        body["data"] = draw(st.one_of(st.none(), st.dictionaries(st.text(max_size=5), JSON_VAL, max_size=4)))
    if d.bool(0.6):
        n = d.int(0, 3)
        errs = []
        for _ in range(n):
            e = {"message": draw(st.text(max_size=10))}
            if d.bool(0.5):
                e["locations"] = [{"line": d.int(1, 9), "column": d.int(1, 9)} for _ in range(d.int(0, 2))]
            if d.bool(0.5):
                e["path"] = [draw(st.one_of(st.integers(0, 5), st.text(max_size=4))) for _ in range(d.int(0, 3))]
            if d.bool(0.5):
                e["extensions"] = draw(st.dictionaries(st.text(max_size=4), JSON_VAL, max_size=2))
            for member in ("locations", "path", "extensions"):
                if member not in e and d.bool(0.15):
                    e[member] = None  # explicit null instead of an absent member
            errs.append(e)
        body["errors"] = errs
    if d.bool(0.3):
        body[draw(st.sampled_from(["extensions", "Data", "error", "x"]))] = draw(JSON_VAL)
    return {"kind": "table", "status": status, "label": "drawn", "content": json.dumps(body)}


def strategy(tier):
    return _drawn()


def nontrivial(status, content):
    try:
        body = json.loads(content)
    except ValueError:
        return False
    if not isinstance(body, dict):
        return False
    has_d, has_e = "data" in body, bool(body.get("errors"))
    extra = set(body) - {"data", "errors"}
    return (has_d and has_e) or (not 200 <= status <= 299 and (has_d or "errors" in body)) or bool(extra and (has_d or has_e))


def run_table(case):
    status = case["status"]
    content = case["content"].encode("latin-1") if case["label"] != "drawn" else case["content"].encode()
    expected = classify(status, content)
    failures, nts, units = [], [], 0
    for variant in bc.VARIANTS:
        # the whole path a generated method takes: execute() over a transport answering with the response, then
        # get_data(); nothing but the documented errors may escape from either step
        # the outcome is a function of status and body only: the declared media type varies and must not matter
        ctype = CONTENT_TYPES[int(hashlib.sha256(content + bytes([status % 256])).hexdigest(), 16) % len(CONTENT_TYPES)]
        hdrs = {"content-type": ctype} if ctype else {}
        client = bc.make(variant, lambda req: httpx.Response(status, content=content, headers=hdrs))
        value = exc = None
        resp, exc = bc.execute(client, variant, "query Q { a }", "Q", {}, {})
        if exc is None:
            try:
                value = client.get_data(resp)
            except BaseException as e:  # noqa: BLE001
                exc = e
        else:
            failures.append({"clause": "execute_raised", "sig": f"{type(exc).__name__}:{variant[0]}",
                             "msg": f"status={status} body={content[:200]!r} variant={variant[0]}: execute() raised {exc!r}"[:600]})
            units += 1
            continue
        units += 1
        bad = check_outcome(expected, value, exc, content)
        if bad:
            failures.append({"clause": bad[0], "sig": f"{expected[0]}:{variant[0]}",
                             "msg": f"status={status} body={content[:200]!r} variant={variant[0]}: {bad[1]}"[:600]})
        if nontrivial(status, content):
            nts.append(hashlib.sha256(repr((status, content, variant[0])).encode()).hexdigest()[:16])
    sample = {"status": status, "body": content.decode("latin-1")[:200], "expected": expected[0]}
    return {"failures": failures[:4], "units": units, "nt": nts, "features": [f"outcome.{expected[0]}", f"body.{case['label'].split('+')[0].rstrip('0123456789')}"], "sample": sample}


E2E_SDL = """
type Query { item(id: ID!, a: ID, b: ID, c: ID): Item items: [Item!]! }
type Item { id: ID! name: String tags: [String!]! }
"""
E2E_QUERIES = """
query GetItem($id: ID!) { item(id: $id) { id name tags } }
query ListItems { items { id name } }
query WithLocals($response: ID!, $data: ID, $query: ID, $variables: ID) { item(id: $response, a: $data, b: $query, c: $variables) { id name tags } }
"""  # WithLocals: its variables carry the names of the method's own locals (the generator renames its locals then)


def run_e2e(case, scratch):
    """Generated methods fed the table: return Model.model_validate(data) of exactly that data and never
    return when errors is non-empty."""
    from vf import e2e

    cfg = {"async_client": case["async"], "opentelemetry_client": case["otel"]}
    pcase = {"sdl": E2E_SDL, "queries": E2E_QUERIES, "config": cfg}
    gen = e2e.generate(pcase, scratch)
    if not gen["ok"]:
        return {"harness_error": "fixed C12 project does not generate: " + gen["msg"]}
    pkg = e2e.import_package(pcase, scratch)
    ex = __import__(pkg.__name__ + ".exceptions", fromlist=["x"])
    good = {"GetItem": {"item": {"id": "1", "name": None, "tags": ["a"]}}, "ListItems": {"items": [{"id": "2", "name": "n"}]},
            "WithLocals": {"item": {"id": "3", "name": "w", "tags": []}}}
    failures, nts, units = [], [], 0
    state = {}
    transport = e2e.Transport(lambda body, req: (state["status"], state["content"]))
    client = e2e.make_client(pkg, pcase, transport)
    for op, kwargs in (("GetItem", {"id": "1"}), ("ListItems", {}), ("WithLocals", {"response": "3", "data": "d"})):
        method = e2e.method_for(client, op)
        bodies = [(lbl, c) for lbl, c in body_table() if not lbl.startswith("data")]
        for i, e in enumerate([None, []] + ERRS):
            b = {"data": good[op]}
            if e is not None:
                b["errors"] = e
            bodies.append((f"gooddata+errors{i}", json.dumps(b).encode()))
            bodies.append((f"gooddata+errors{i}+extra", json.dumps(dict(b, extensions={"x": 1})).encode()))
        for status in STATUSES:
            for lbl, content in bodies:
                state["status"], state["content"] = status, content
                expected = classify(status, content)
                value, exc = e2e.run_call(pcase, method, kwargs)
                units += 1
                if nontrivial(status, content):
                    nts.append(hashlib.sha256(repr((op, status, content, case["async"], case["otel"])).encode()).hexdigest()[:16])
                if expected[0] == "data":
                    if expected[1] == good[op]:
                        ok = exc is None and value is not None and value.model_dump(mode="json", by_alias=True) == good[op]
                        if not ok:
                            failures.append({"clause": "method_return", "sig": "good_data", "msg": f"{op} {status} {lbl}: {exc!r} {value!r}"[:400]})
                    else:
                        # data that does not fit the model (None, {}) : the method must not invent an object
                        if exc is None and value is not None and value.model_dump(mode="json", by_alias=True) != expected[1]:
                            failures.append({"clause": "method_return", "sig": "other_data", "msg": f"{op} {status} {lbl}: returned {value!r}"[:400]})
                else:
                    want = {"http": ex.GraphQLClientHttpError, "invalid": ex.GraphQLClientInvalidResponseError,
                            "multi": ex.GraphQLClientGraphQLMultiError}[expected[0]]
                    if type(exc) is not want:
                        failures.append({"clause": "method_outcome", "sig": expected[0],
                                         "msg": f"{op} {status} {lbl}: expected {want.__name__}, got {exc!r} / {value!r}"[:400]})
    return {"failures": failures[:4], "units": units, "nt": nts, "features": ["e2e"],
            "sample": {"generated_method_table": True, "async": case["async"], "otel": case["otel"]}}


def run_case(case, scratch):
    if case["kind"] == "e2e":
        return run_e2e(case, scratch)
    return run_table(case)
