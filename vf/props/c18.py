"""C18 - GraphQL names map lawfully to Python names."""
import hashlib
import itertools
import json
import keyword
import os
import re
import subprocess
import sys

import pydantic
from hypothesis import strategies as st

from vf import findings
from vf.gen_common import D

ID = "C18"
EXHAUSTIVE = True
EXHAUSTIVE_SUBDOMAIN = (
    "function level: every GraphQL name of length <= 8 over the alphabet {a, B, _, 1} (not starting with a digit or "
    "'__'), every Python keyword / soft keyword and every public pydantic.BaseModel attribute, each also with '_' "
    "prefixed / suffixed / capitalised, x snake-case on/off x the 3 call-site flag combinations"
)
RULE = (
    "(i) bounded-exhaustive laws on process_name as used by each call site (identifier, not keyword, not a BaseModel "
    "attribute and no leading underscore for model fields, deterministic in-process and across PYTHONHASHSEED, "
    "idempotent, letters and digits preserved in order); (ii) hypothesis names over the full alphabet up to length 40; "
    "(iii) scope level: pairs of names from collision classes and control pairs put into one scope (response keys, "
    "input fields, variables, operations, enum values) of a real generated project: either generation fails with an "
    "ariadne-codegen exception or both names stay usable with their own values and the wire name is the original. "
    "unit = (name, call site, snake) or (pair, scope); non-trivial = name has underscore/digit/case change/reserved word, "
    "or pair is a collision-class member; distinct by the name / pair."
)
ASSUMPTIONS = [
    "call-site flag combinations read from the callers: result/input field (trim leading underscore + pydantic-reserved "
    "handling), variable/argument (neither), operation name (snake case forced)",
    "'keeps every letter and digit in order' is checked case-folded; the documented all-underscore fallback name is the one exception",
]
REPO = os.environ.get("VERIF_REPO", "/repo")
SITES = {
    "field": {"trim_leading_underscore": True, "handle_pydantic_resrved_field_names": True},
    "variable": {},
    "operation": {"force_snake": True},
}
RESERVED = sorted(n for n in dir(pydantic.BaseModel) if not n.startswith("_"))
SOFT = ["match", "case", "type", "_"]
NAME_RE = re.compile(r"^[_A-Za-z][_0-9A-Za-z]*$")


def region(name, site, snake):
    """open-known-finding regions at function level, as predicates over the input (DESIGN 5.1)"""
    from ariadne_codegen.utils import str_to_snake_case

    if SITES[site].get("force_snake"):
        snake = True
    if re.match(r"^_+[0-9]", name) and (snake or site == "field"):
        return "names.digit_after_underscore"
    if site != "field" or not name.startswith("_"):
        return None
    base = str_to_snake_case(name) if snake else name
    stripped = base.lstrip("_")
    if keyword.iskeyword(stripped) or stripped in RESERVED:
        return "names.reserved_after_trim"
    return None


def apply(name, site, snake):
    from ariadne_codegen.utils import process_name

    kw = dict(SITES[site])
    if kw.pop("force_snake", False):
        snake = True
    return process_name(name, convert_to_snake_case=snake, **kw)


def laws(name, site, snake):
    """returns list of (law, msg)"""
    bad = []
    out = apply(name, site, snake)
    if not isinstance(out, str) or not out.isidentifier():
        bad.append(("identifier", f"{name!r} -> {out!r} is not an identifier"))
        return bad
    if keyword.iskeyword(out):
        bad.append(("keyword", f"{name!r} -> {out!r} is a keyword"))
    if site == "field":
        if out in RESERVED:
            bad.append(("shadows_basemodel", f"{name!r} -> {out!r} shadows a pydantic BaseModel attribute"))
        if out.startswith("_"):
            bad.append(("private", f"{name!r} -> {out!r} starts with an underscore (pydantic private attribute)"))
    if apply(name, site, snake) != out:
        bad.append(("deterministic", f"{name!r} maps to two results in one process"))
    again = apply(out, site, snake)
    if again != out:
        bad.append(("idempotent", f"{name!r} -> {out!r} -> {again!r}"))
    keep = re.sub(r"[^0-9A-Za-z]", "", name).lower()
    got = re.sub(r"[^0-9A-Za-z]", "", out).lower()
    if keep and got != keep:
        bad.append(("letters_digits", f"{name!r} -> {out!r} does not keep the letters and digits in order"))
    if not keep and out != "underscore_named_field_" and site == "field":
        bad.append(("letters_digits", f"all-underscore {name!r} -> {out!r}"))
    return bad


def reduced_names(maxlen):
    for n in range(1, maxlen + 1):
        for combo in itertools.product("aB_1", repeat=n):
            s = "".join(combo)
            if s[0] == "1" or s.startswith("__"):
                continue
            yield s


def word_names():
    base = list(keyword.kwlist) + SOFT + RESERVED + ["True", "False", "None"]
    seen = set()
    for w in base:
        for v in (w, "_" + w, w + "_", w.capitalize(), "_" + w.capitalize(), w.upper(), w[:1].lower() + w[1:] + "X"):
            if NAME_RE.match(v) and not v.startswith("__") and v not in seen:
                seen.add(v)
                yield v


COLLISION_PAIRS = [
    ("fooBar", "foo_bar", "snake"), ("_x", "x", "any"), ("from", "from_", "any"), ("Foo", "foo", "snake"),
    ("a1", "a_1", "snake"), ("HTTPCode", "httpCode", "snake"), ("copy", "copy_", "any"), ("idValue", "id_value", "snake"),
    ("_from", "from", "any"), ("aB", "a_b", "snake"), ("x_", "x__", "snake"),
]
CONTROL_PAIRS = [("type", "match", "none"), ("case", "alpha", "none"), ("alpha", "beta", "none"), ("fooBar", "fooBaz", "none"), ("a1", "a2", "none"), ("from", "import", "none"),
                 ("copy", "json", "none"), ("_x", "_y", "none"), ("Foo", "Bar", "none")]
# variables whose PYTHON name is a local of the generated method (query / variables / response / data): the generator
# renames its own local; the variable stays usable under its wire name
VARIABLE_CONTROL_PAIRS = [("Query", "limit", "none"), ("QUERY", "data", "none"), ("query", "Variables", "none"),
                          ("Response", "x", "none"), ("Data", "query_", "none"), ("variables", "response", "none")]
SCOPES = ["response_keys", "input_fields", "variables", "operations", "enum_values"]


def enumerate_cases(tier):
    maxlen = 8 if tier == "quick" else 9
    batch = []
    for name in itertools.chain(word_names(), reduced_names(maxlen)):
        batch.append(name)
        if len(batch) == 600:
            yield {"kind": "names", "names": batch}
            batch = []
    if batch:
        yield {"kind": "names", "names": batch}
    yield {"kind": "hashseed", "names": list(word_names())[:150] + list(itertools.islice(reduced_names(6), 0, 4000, 9))}
    open_tr = findings.open_triggers()
    for alias in ("kind", "typeName", "type_name", "class"):
        for snake in (True, False):
            yield {"kind": "scope", "_isolate": True, "scope": "typename_keys", "a": "__typename", "b": alias, "snake": snake, "collides": False}
    for scope in SCOPES:
        for a, b, cls in COLLISION_PAIRS + CONTROL_PAIRS + (VARIABLE_CONTROL_PAIRS if scope == "variables" else []):
            for snake in (True, False):
                collides = cls == "any" or (cls == "snake" and (snake or scope == "operations"))
                if scope == "enum_values":
                    # enum values are neither snake-cased nor trimmed: only the keyword suffix can make two of them meet
                    em = lambda n: n + "_" if keyword.iskeyword(n) else n  # noqa: E731
                    collides = em(a) == em(b)
                trig = f"names.scope_collision.{scope}"
                if collides and open_tr.get(trig):
                    yield {"_excluded": open_tr[trig]}
                    continue
                regs = [region(n, "field", snake) for n in (a, b)]
                if any(r and open_tr.get(r) for r in regs) and scope in ("response_keys", "input_fields"):
                    yield {"_excluded": [open_tr[r] for r in regs if r and open_tr.get(r)][0]}
                    continue
                yield {"kind": "scope", "_isolate": True, "scope": scope, "a": a, "b": b, "snake": snake, "collides": collides}


@st.composite
def _drawn(draw):
    name = draw(st.from_regex(r"\A[_A-Za-z][_0-9A-Za-z]{0,39}\Z"))
    if name.startswith("__"):
        name = "a" + name
    return {"kind": "names", "names": [name], "drawn": True}


def strategy(tier):
    return _drawn()


def budget(tier):
    return {"examples": 4000 if tier == "quick" else 80000, "timeout": 240.0}


ISOLATE = False


def run_names(case):
    open_tr = findings.open_triggers()
    failures, nts, units = [], [], 0
    counters = {}
    for name in case["names"]:
        for site in SITES:
            for snake in (True, False):
                if site == "operation" and not snake:
                    continue
                units += 1
                reg = region(name, site, snake)
                if reg and open_tr.get(reg):
                    counters["excluded:" + open_tr[reg]] = counters.get("excluded:" + open_tr[reg], 0) + 1
                    continue
                try:
                    bad = laws(name, site, snake)
                except Exception as exc:  # noqa: BLE001
                    bad = [("crash", f"{name!r}: {exc!r}")]
                if set(name) == {"_"} and open_tr.get("names.all_underscore_idempotence"):
                    n0 = len(bad)
                    bad = [x for x in bad if x[0] != "idempotent"]
                    if len(bad) != n0:
                        k = "excluded:" + open_tr["names.all_underscore_idempotence"]
                        counters[k] = counters.get(k, 0) + 1
                for law, msg in bad:
                    if len(failures) < 8:
                        failures.append({"clause": "law_" + law, "sig": site + (":snake" if snake else ":plain"),
                                         "msg": f"[{site}, snake={snake}] {msg}"})
        if re.search(r"[_0-9]", name) or name != name.lower() or keyword.iskeyword(name) or name in RESERVED:
            nts.append(name if len(name) < 24 else hashlib.sha256(name.encode()).hexdigest()[:16])
    seen, out = set(), []
    for f in failures:
        k = (f["clause"], f["sig"])
        if k not in seen:
            seen.add(k)
            out.append(f)
    return {"failures": out[:6], "units": units, "nt": nts, "features": ["names.drawn" if case.get("drawn") else "names.exhaustive"],
            "sample": {"names": case["names"][:6], "mapped_field_snake": [apply(n, "field", True) for n in case["names"][:6]]},
            "counters": counters}


def run_hashseed(case):
    """the mapping must not depend on the interpreter's hash seed"""
    prog = (
        "import sys, json; sys.path.insert(0, %r); sys.path.insert(1, %r)\n"
        "from vf.props.c18 import apply, SITES\n"
        "names = json.load(sys.stdin)\n"
        "print(json.dumps([[apply(n, s, k) for s in SITES for k in (True, False)] for n in names]))\n"
    ) % (REPO, os.path.dirname(os.path.dirname(os.path.dirname(os.path.abspath(__file__)))))
    outs = []
    for hs in ("0", "1", "4711"):
        env = dict(os.environ, PYTHONHASHSEED=hs)
        p = subprocess.run([sys.executable, "-c", prog], input=json.dumps(case["names"]), capture_output=True, text=True, env=env, timeout=120)
        if p.returncode != 0:
            return {"harness_error": "hash seed subprocess failed: " + p.stderr[-400:]}
        outs.append(p.stdout)
    fails = []
    if len(set(outs)) != 1:
        fails.append({"clause": "law_deterministic_across_processes", "sig": "", "msg": "process_name results differ between PYTHONHASHSEED values"})
    return {"failures": fails, "units": len(case["names"]) * 3, "nt": ["hashseed:" + str(len(case["names"]))], "features": ["names.hashseed"],
            "sample": {"hash_seeds": [0, 1, 4711], "names": len(case["names"])}}


# ------------------------------------------------------------------ scope level


def scope_project(scope, a, b, snake):
    cfg = {"convert_to_snake_case": snake}
    if scope == "response_keys":
        sdl = f"type Query {{ obj: T }}\ntype T {{ {a}: Int {b}: Int }}\n"
        q = f"query GetIt {{ obj {{ {a} {b} }} }}\n"
    elif scope == "input_fields":
        sdl = f"type Query {{ take(i: In): Int }}\ninput In {{ {a}: Int {b}: Int }}\n"
        q = "query GetIt($i: In) { take(i: $i) }\n"
    elif scope == "typename_keys":
        # __typename next to an ALIASED __typename in one selection set (a = "__typename", b = the alias)
        sdl = "type Query { obj: T }\ntype T { x: Int }\n"
        q = f"query GetIt {{ obj {{ __typename {b}: __typename x }} }}\n"
    elif scope == "variables":
        # a nullable variable declared BEFORE a non-null one: the method signature orders them the other way round
        sdl = "type Query { take(x: Int, y: Int!): Int }\n"
        q = f"query GetIt(${a}: Int, ${b}: Int!) {{ take(x: ${a}, y: ${b}) }}\n"
    elif scope == "operations":
        sdl = "type Query { one: Int two: Int }\n"
        q = f"query {a} {{ one }}\nquery {b} {{ two }}\n"
    else:
        # the values are also used as input defaults: the member reference must name the member that exists
        sdl = f"type Query {{ e(v: E): E }}\nenum E {{ {a} {b} }}\ninput Defaults {{ x: E = {a} y: [E!] = [{b}] }}\n"
        q = "query GetIt($v: E) { e(v: $v) }\n"
    return {"sdl": sdl, "queries": q, "config": cfg}


def run_scope(case, scratch):
    import inspect

    from vf import e2e

    a, b, scope = case["a"], case["b"], case["scope"]
    if scope == "enum_values" and (a in ("true", "false", "null") or b in ("true", "false", "null")):
        return {"rejected": "not enum value names"}
    pcase = scope_project(scope, a, b, case["snake"])
    gen = e2e.generate(pcase, scratch)
    label = f"{scope} {a!r}+{b!r} snake={case['snake']}"
    nt = [f"{scope}:{a}:{b}:{case['snake']}"] if case["collides"] else []
    feats = ["scope." + scope, "collision" if case["collides"] else "control"]
    sample = {"scope": scope, "pair": [a, b], "snake": case["snake"]}
    if not gen["ok"]:
        if gen["codegen_exc"] and case["collides"]:
            return {"failures": [], "units": 1, "nt": nt, "features": feats + ["refused"], "sample": sample}
        return {"failures": [{"clause": "generation", "sig": scope + ":" + gen["type"], "msg": f"{label}: {gen['type']}: {gen['msg']}"[:400]}],
                "units": 1, "nt": nt, "features": feats, "sample": sample}
    fails = []

    def fail(msg):
        fails.append({"clause": "merged_or_unusable", "sig": scope, "msg": f"{label}: {msg}"[:400]})

    try:
        pkg = e2e.import_package(pcase, scratch)
    except BaseException as exc:  # noqa: BLE001
        fail(f"package does not import: {exc!r}")
        return {"failures": fails, "units": 1, "nt": nt, "features": feats, "sample": sample}
    sent = []

    def responder(body, req):
        sent.append(body)
        if scope == "response_keys":
            return 200, {"data": {"obj": {a: 1, b: 2}}}
        if scope == "typename_keys":
            return 200, {"data": {"obj": {"__typename": "T", b: "T", "x": 1}}}
        if scope == "operations":
            return 200, {"data": {"one": 1} if body.get("operationName") == a else {"two": 2}}
        if scope == "enum_values":
            return 200, {"data": {"e": (body.get("variables") or {}).get("v")}}
        return 200, {"data": {"take": 7}}

    transport = e2e.Transport(responder)
    client = e2e.make_client(pkg, pcase, transport)
    cls = type(client)
    methods = [n for n, f in cls.__dict__.items() if inspect.isfunction(f) and not n.startswith("_")]
    try:
        if scope == "operations":
            if len(methods) != 2:
                fail(f"client has methods {methods} for two operations")
            else:
                seen = set()
                for m in methods:
                    v, exc = e2e.run_call(pcase, getattr(client, m), {})
                    if exc is not None:
                        fail(f"method {m} raised {exc!r}")
                    else:
                        seen.add(json.dumps(v.model_dump(by_alias=True), sort_keys=True))
                if seen != {'{"one": 1}', '{"two": 2}'} or sorted(s.get("operationName") for s in sent) != sorted([a, b]):
                    fail(f"methods {methods} returned {sorted(seen)}, operationNames sent {[s.get('operationName') for s in sent]}")
        else:
            method = getattr(client, methods[0])
            params = [p for p in inspect.signature(method).parameters if p not in ("self", "kwargs")]
            if scope == "response_keys":
                v, exc = e2e.run_call(pcase, method, {})
                if exc is not None:
                    fail(f"response rejected: {exc!r}")
                else:
                    obj = v.obj
                    by_alias = {(f.alias or n): n for n, f in type(obj).model_fields.items()}
                    if set(by_alias) != {a, b}:
                        fail(f"model exposes keys {sorted(by_alias)} for response keys {[a, b]}")
                    elif (getattr(obj, by_alias[a]), getattr(obj, by_alias[b])) != (1, 2):
                        fail(f"values {getattr(obj, by_alias[a])}, {getattr(obj, by_alias[b])} instead of 1, 2")
                    elif obj.model_dump(by_alias=True) != {a: 1, b: 2}:
                        fail(f"dump {obj.model_dump(by_alias=True)}")
            elif scope == "typename_keys":
                v, exc = e2e.run_call(pcase, method, {})
                if exc is not None:
                    fail(f"response rejected: {exc!r}")
                else:
                    obj = v.obj
                    by_alias = {(f.alias or n): n for n, f in type(obj).model_fields.items()}
                    if set(by_alias) != {"__typename", b, "x"}:
                        fail(f"model exposes keys {sorted(by_alias)} for response keys {['__typename', b, 'x']}")
                    elif obj.model_dump(by_alias=True) != {"__typename": "T", b: "T", "x": 1}:
                        fail(f"dump {obj.model_dump(by_alias=True)}")
            elif scope == "input_fields":
                In = pkg.In
                by_alias = {(f.alias or n): n for n, f in In.model_fields.items()}
                if set(by_alias) != {a, b}:
                    fail(f"input model has fields for {sorted(by_alias)} instead of {[a, b]}")
                else:
                    inst = In(**{by_alias[a]: 1, by_alias[b]: 2})
                    v, exc = e2e.run_call(pcase, method, {params[0]: inst})
                    if exc is not None or not sent or sent[-1]["variables"] != {"i": {a: 1, b: 2}}:
                        fail(f"sent {sent[-1:] and sent[-1].get('variables')} exc={exc!r}")
            elif scope == "variables":
                if len(params) != 2:
                    fail(f"method parameters {params} for variables {[a, b]}")
                else:
                    cn = lambda x: re.sub(r"[^a-z0-9]", "", x.lower())  # noqa: E731
                    pa = [p for p in params if cn(p) == cn(a)]
                    pb = [p for p in params if cn(p) == cn(b)]
                    if len(pa) == 1 and len(pb) == 1 and pa != pb:
                        # each parameter is recognisably one variable's: the value must travel under THAT wire name
                        v, exc = e2e.run_call(pcase, method, {pa[0]: 1, pb[0]: 2})
                        if exc is not None or not sent or sent[-1]["variables"] != {a: 1, b: 2}:
                            fail(f"{pa[0]}=1, {pb[0]}=2 sent as {sent[-1:] and sent[-1].get('variables')} exc={exc!r}")
                    else:
                        v, exc = e2e.run_call(pcase, method, {params[0]: 1, params[1]: 2})
                        if exc is not None or not sent or sorted(sent[-1]["variables"]) != sorted([a, b]) or \
                                sorted(sent[-1]["variables"].values()) != [1, 2]:
                            fail(f"sent {sent[-1:] and sent[-1].get('variables')} exc={exc!r}")
            else:  # enum values
                E = pkg.E
                members = {m.value: m for m in E}
                if set(members) != {a, b}:
                    fail(f"enum members carry values {sorted(members)} instead of {[a, b]}")
                else:
                    try:
                        dumped = pkg.Defaults().model_dump(mode="json", by_alias=True)
                        if dumped != {"x": a, "y": [b]}:
                            fail(f"input defaults {a} / [{b}] read back as {dumped}")
                    except Exception as exc:  # noqa: BLE001
                        fail(f"input with enum defaults {a} / [{b}] cannot be built: {exc!r}")
                    for val in (a, b):
                        v, exc = e2e.run_call(pcase, method, {params[0]: members[val]})
                        if exc is not None or sent[-1]["variables"] != {"v": val} or v.e is not members[val]:
                            fail(f"value {val}: sent {sent[-1].get('variables')}, got {getattr(v, 'e', None)!r} exc={exc!r}")
    except BaseException as exc:  # noqa: BLE001
        fail(f"{type(exc).__name__}: {exc}")
    return {"failures": fails[:2], "units": 1, "nt": nt, "features": feats, "sample": sample}


def run_case(case, scratch):
    if case["kind"] == "names":
        return run_names(case)
    if case["kind"] == "hashseed":
        return run_hashseed(case)
    return run_scope(case, scratch)
