"""known_findings.json protocol (DESIGN.md section 5).  Never written at run time."""
import json
import os

VERIF = os.path.dirname(os.path.dirname(os.path.abspath(__file__)))
_CACHE = None


def load():
    global _CACHE
    if _CACHE is None:
        path = os.path.join(VERIF, "known_findings.json")
        if os.path.exists(path):
            with open(path) as fh:
                _CACHE = json.load(fh)["findings"]
        else:
            _CACHE = []
    return _CACHE


def open_triggers():
    """Generator feature switches that are OFF because an open finding lives there."""
    if os.environ.get("VERIF_NO_EXCLUDE"):
        return {}
    out = {}
    for t in os.environ.get("VERIF_DISABLE", "").split(","):
        if t:
            out[t] = "manual"
    for k in load():
        if k["status"] == "open":
            for t in k.get("triggers", []):
                out[t] = k["id"]
    return out


def matches(kf, failure):
    """Does this failure have the listed clause and signature of the known finding?"""
    if kf.get("clause") and kf["clause"] != failure.get("clause"):
        return False
    sig = kf.get("signature")
    if sig and sig not in (str(failure.get("sig")) + " " + str(failure.get("msg"))):
        return False
    return True
