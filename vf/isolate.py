"""Fork-per-case isolation.

The code generator keeps process-global mutable state (module level ast.ImportFrom
constants that plugins mutate in place), so every case that generates code runs in a child
obtained by os.fork() from a parent that has imported everything but has never generated
anything.  The child gets a private scratch directory (cwd), runs ``fn(case)``, sends a JSON
verdict through a pipe and _exits.  The parent removes the directory.

A verdict is a dict.  The harness-level keys are
  harness_error : str   -- the harness (not the code under test) failed; never a violation
  timeout       : bool  -- budget hit; inconclusive, never a violation
"""
import json
import os
import select
import shutil
import signal
import sys
import tempfile
import time
import traceback

SCRATCH_ROOT = os.environ.get("VERIF_SCRATCH") or os.path.join(
    tempfile.gettempdir(), "vf_scratch"
)


def _mk_scratch():
    os.makedirs(SCRATCH_ROOT, exist_ok=True)
    return tempfile.mkdtemp(prefix="c", dir=SCRATCH_ROOT)


def run(fn, case, timeout=120.0):
    """Run fn(case) in a forked child inside a fresh scratch dir; return its verdict."""
    scratch = _mk_scratch()
    r, w = os.pipe()
    sys.stdout.flush()
    sys.stderr.flush()
    pid = os.fork()
    if pid == 0:  # ---- child
        status = 0
        try:
            os.close(r)
            os.chdir(scratch)
            devnull = os.open(os.devnull, os.O_WRONLY)
            if not os.environ.get("VERIF_DEBUG"):
                os.dup2(devnull, 1)
                os.dup2(devnull, 2)
            try:
                from vf import gen_common

                gen_common.EXCLUDED.clear()  # the child reports only its own steering
                verdict = fn(case, scratch)
            except BaseException:  # harness failure inside the child
                verdict = {"harness_error": traceback.format_exc()[-4000:]}
            data = json.dumps(verdict, default=repr).encode()
            with os.fdopen(w, "wb") as fh:
                fh.write(data)
        except BaseException:
            status = 3
        finally:
            os._exit(status)
    # ---- parent
    os.close(w)
    chunks = []
    deadline = time.monotonic() + timeout
    timed_out = False
    try:
        while True:
            left = deadline - time.monotonic()
            if left <= 0:
                timed_out = True
                break
            ready, _, _ = select.select([r], [], [], min(left, 1.0))
            if ready:
                b = os.read(r, 1 << 16)
                if not b:
                    break
                chunks.append(b)
    finally:
        os.close(r)
        if timed_out:
            try:
                os.kill(pid, signal.SIGKILL)
            except ProcessLookupError:
                pass
        try:
            os.waitpid(pid, 0)
        except ChildProcessError:
            pass
        shutil.rmtree(scratch, ignore_errors=True)
    if timed_out:
        return {"timeout": True}
    raw = b"".join(chunks)
    if not raw:
        return {"harness_error": "child died without a verdict"}
    try:
        return json.loads(raw)
    except ValueError:
        return {"harness_error": "unparsable verdict: %r" % raw[:200]}
