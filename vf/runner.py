"""Single entry point:  ./check <ID> [quick|thorough] [--replay FILE]

exit 0  property held on everything explored (KNOWN-FINDING lines may be printed)
exit 1  at least one line  VIOLATION property=<ID> replay=<path>
exit 2  the harness itself failed (never accompanied by a VIOLATION line)
"""
import hashlib
import importlib
import json
import os
import sys
import time
import traceback
from collections import Counter
from concurrent.futures import ProcessPoolExecutor
import multiprocessing as mp

VERIF = os.path.dirname(os.path.dirname(os.path.abspath(__file__)))
REPO = os.environ.get("VERIF_REPO", "/repo")
os.environ.setdefault("PYTHONDONTWRITEBYTECODE", "1")
sys.dont_write_bytecode = True
if REPO not in sys.path[:1]:
    sys.path.insert(0, REPO)
if VERIF not in sys.path:
    sys.path.insert(1, VERIF)

from vf import findings, isolate  # noqa: E402

NSHARDS = int(os.environ.get("VERIF_SHARDS", "16"))


def case_hash(obj):
    return hashlib.sha256(
        json.dumps(obj, sort_keys=True, default=repr).encode()
    ).hexdigest()[:16]


def bucket_of(f):
    return f"{f.get('clause')}|{f.get('sig')}"


# --------------------------------------------------------------------------- shard worker


class Collector:
    def __init__(self):
        self.evaluations = 0
        self.cases = 0
        self.nontrivial = set()
        self.features = Counter()
        self.failures = []  # (case, failure)
        self.samples = []
        self.inconclusive = 0
        self.harness_errors = []
        self.rejected = 0
        self.excluded = Counter()
        self.extra = Counter()

    def add(self, case, verdict):
        self.cases += 1
        if verdict.get("timeout"):
            self.inconclusive += 1
            return
        if verdict.get("harness_error"):
            if len(self.harness_errors) < 5:
                self.harness_errors.append(
                    {"error": verdict["harness_error"], "case": case}
                )
            else:
                self.harness_errors.append({"error": "(more)"})
            return
        if verdict.get("rejected"):
            self.rejected += 1
            self.extra["rejected:" + str(verdict["rejected"])[:60]] += 1
            return
        self.evaluations += int(verdict.get("units", 1))
        for h in verdict.get("nt", []):
            self.nontrivial.add(h)
        for f in verdict.get("features", []):
            self.features[f] += 1
        for k, v in (verdict.get("counters") or {}).items():
            if k.startswith("excluded:"):
                self.excluded[k[9:]] += v  # steering done inside the forked child
            else:
                self.extra[k] += v
        for f in verdict.get("failures", []):
            if len(self.failures) < 400:
                self.failures.append((case, f))
        if verdict.get("sample") is not None and len(self.samples) < 2:
            if verdict.get("nt"):
                self.samples.append(verdict["sample"])

    def dump(self):
        return {
            "evaluations": self.evaluations,
            "cases": self.cases,
            "nontrivial": sorted(self.nontrivial),
            "features": dict(self.features),
            "failures": self.failures,
            "samples": self.samples,
            "inconclusive": self.inconclusive,
            "harness_errors": self.harness_errors,
            "rejected": self.rejected,
            "excluded": dict(self.excluded),
            "extra": dict(self.extra),
        }


def _exec_case(mod, case, timeout):
    iso = getattr(mod, "ISOLATE", True)
    if isinstance(case, dict) and "_isolate" in case:
        iso = case["_isolate"]
    if iso:
        return isolate.run(mod.run_case, case, timeout=timeout)
    try:
        return mod.run_case(case, None)
    except BaseException:
        return {"harness_error": traceback.format_exc()[-4000:]}


def shard_worker(args):
    pid, tier, seed, shard, nshards = args
    import hypothesis
    from hypothesis import HealthCheck, Phase, given, settings

    from vf import gen_common

    mod = importlib.import_module(f"vf.props.{pid.lower()}")
    col = Collector()
    gen_common.EXCLUDED.clear()
    budget = mod.budget(tier)
    timeout = budget.get("timeout", 120.0)
    t0 = time.monotonic()
    # bounded-exhaustive / enumerated part, sharded round-robin
    if hasattr(mod, "enumerate_cases"):
        for i, case in enumerate(mod.enumerate_cases(tier)):
            if i % nshards != shard:
                continue
            if isinstance(case, dict) and case.get("_excluded"):
                col.excluded[case["_excluded"]] += 1  # enumerated case inside an open finding's region
                continue
            col.add(case, _exec_case(mod, case, timeout))
    n = budget.get("examples", 0)
    per = n // nshards + (1 if shard < n % nshards else 0)
    wall_cap = budget.get("wall_cap")
    if per > 0 and hasattr(mod, "strategy"):
        strat = mod.strategy(tier)

        @hypothesis.seed(seed * 1000 + shard)
        @settings(
            max_examples=per,
            database=None,
            deadline=None,
            report_multiple_bugs=False,
            phases=[Phase.generate],
            suppress_health_check=list(HealthCheck),
        )
        @given(strat)
        def prop(case):
            if wall_cap and time.monotonic() - t0 > wall_cap:
                col.extra["skipped_wall_cap"] += 1
                return
            col.add(case, _exec_case(mod, case, timeout))

        try:
            prop()
        except BaseException:
            col.harness_errors.append({"error": traceback.format_exc()[-4000:]})
    col.excluded.update(gen_common.EXCLUDED)
    return col.dump()


# --------------------------------------------------------------------------- shrinking


def shrink_bucket(mod, tier, seed, bucket, best_case, budget_s):
    """Let hypothesis' shrinker minimise a failing bucket; keeps the smallest failing case
    seen (by JSON length), whatever hypothesis itself concludes."""
    import hypothesis
    from hypothesis import HealthCheck, Phase, given, settings

    if not hasattr(mod, "strategy"):
        return best_case
    state = {"best": best_case, "size": len(json.dumps(best_case, default=repr))}
    t0 = time.monotonic()
    timeout = mod.budget(tier).get("timeout", 120.0)

    class Found(Exception):
        pass

    for shard in range(NSHARDS):
        if time.monotonic() - t0 > budget_s:
            break

        @hypothesis.seed(seed * 1000 + shard)
        @settings(
            max_examples=max(20, mod.budget(tier).get("examples", 100) // NSHARDS),
            database=None,
            deadline=None,
            report_multiple_bugs=False,
            phases=[Phase.generate, Phase.shrink],
            suppress_health_check=list(HealthCheck),
        )
        @given(mod.strategy(tier))
        def prop(case):
            if time.monotonic() - t0 > budget_s:
                return
            v = _exec_case(mod, case, timeout)
            for f in v.get("failures", []) or []:
                if bucket_of(f) == bucket:
                    size = len(json.dumps(case, default=repr))
                    if size < state["size"]:
                        state["best"], state["size"] = case, size
                    raise Found()

        try:
            prop()
        except BaseException:
            break  # found & shrunk (or hypothesis gave up): state holds the best case
    return state["best"]


# --------------------------------------------------------------------------- main


def write_replay(pid, case, failure, seed, where):
    d = os.path.join(VERIF, where, pid)
    os.makedirs(d, exist_ok=True)
    h = case_hash([bucket_of(failure), case])
    path = os.path.join(d, f"{h}.json")
    with open(path, "w") as fh:
        json.dump(
            {
                "property": pid,
                "clause": failure.get("clause"),
                "signature": failure.get("sig"),
                "message": failure.get("msg"),
                "seed": seed,
                "case": case,
            },
            fh,
            indent=1,
            default=repr,
        )
    return path


def run_replay_file(mod, path, timeout=300.0):
    with open(path) as fh:
        rec = json.load(fh)
    v = _exec_case(mod, rec["case"], timeout)
    return rec, v


def main(argv=None):
    argv = list(sys.argv[1:] if argv is None else argv)
    if not argv:
        print(__doc__)
        return 2
    pid = argv.pop(0).upper()
    replay = None
    tier = os.environ.get("VERIF_TIER", "quick")
    while argv:
        a = argv.pop(0)
        if a == "--replay":
            replay = argv.pop(0)
        elif a in ("quick", "thorough"):
            tier = a
    seed = int(os.environ.get("VERIF_SEED", "1") or "1")
    mod = importlib.import_module(f"vf.props.{pid.lower()}")

    if replay:
        rec, v = run_replay_file(mod, replay)
        if v.get("harness_error") or v.get("timeout") or v.get("rejected"):
            print("HARNESS-ERROR replay could not be evaluated:", str(v)[:2000])
            return 2
        fails = v.get("failures", [])
        for f in fails:
            print(f"  clause={f.get('clause')} sig={f.get('sig')} msg={str(f.get('msg'))[:600]}")
        if fails:
            print(f"VIOLATION property={pid} replay={replay}")
            return 1
        print("replay passes")
        return 0

    t0 = time.monotonic()
    kf_all = findings.load()
    kf_open = [k for k in kf_all if k["property"] == pid and k["status"] == "open"]
    violations = []  # (path)
    known_lines = []
    harness_errors = []

    # ---- pinned tier: committed replays + known-finding reproducers
    kf_by_repro = {os.path.normpath(k["repro"]): k for k in kf_open if k.get("repro")}
    rdir = os.path.join(VERIF, "replays", pid)
    pinned = 0
    kf_reproduced = []
    kf_not_reproduced = []
    if os.path.isdir(rdir):
        for fn in sorted(os.listdir(rdir)):
            if not fn.endswith(".json"):
                continue
            rel = os.path.normpath(os.path.join("replays", pid, fn))
            path = os.path.join(VERIF, rel)
            rec, v = run_replay_file(mod, path)
            pinned += 1
            if v.get("harness_error") or v.get("rejected"):
                harness_errors.append({"error": str(v)[:3000], "replay": rel})
                continue
            if v.get("timeout"):
                continue
            fails = v.get("failures", [])
            kf = kf_by_repro.get(rel)
            if kf:
                # the finding is identified by this specific input: every failure on it belongs to the
                # finding as long as the listed clause + signature is among them; if the input now fails
                # in a different way only, that is a different violation
                match = [f for f in fails if findings.matches(kf, f)]
                if match:
                    kf_reproduced.append(kf["id"])
                    known_lines.append(f"KNOWN-FINDING: property={pid} {kf['id']} {kf['what']}")
                elif fails:
                    violations.append((rel, fails[0]))
                else:
                    kf_not_reproduced.append(kf["id"])
            elif fails:
                violations.append((rel, fails[0]))

    # ---- generated tier
    ctx = mp.get_context("fork")
    args = [(pid, tier, seed, s, NSHARDS) for s in range(NSHARDS)]
    if NSHARDS == 1:
        dumps = [shard_worker(args[0])]
    else:
        with ProcessPoolExecutor(max_workers=NSHARDS, mp_context=ctx) as ex:
            dumps = list(ex.map(shard_worker, args))

    evaluations = sum(d["evaluations"] for d in dumps)
    cases = sum(d["cases"] for d in dumps)
    nontrivial = set()
    features = Counter()
    excluded = Counter()
    extra = Counter()
    samples = []
    failures = []
    inconclusive = 0
    rejected = 0
    for d in dumps:
        nontrivial.update(d["nontrivial"])
        features.update(d["features"])
        excluded.update(d["excluded"])
        extra.update(d["extra"])
        samples.extend(d["samples"])
        failures.extend(d["failures"])
        inconclusive += d["inconclusive"]
        rejected += d["rejected"]
        harness_errors.extend(d["harness_errors"])

    buckets = {}
    for case, f in failures:
        b = bucket_of(f)
        size = len(json.dumps(case, default=repr))
        if b not in buckets or size < buckets[b][2]:
            buckets[b] = (case, f, size)
    do_shrink = os.environ.get("VERIF_SHRINK", "1" if tier == "thorough" else "0") == "1"
    for b, (case, f, _size) in sorted(buckets.items()):
        if do_shrink:
            try:
                case = shrink_bucket(mod, tier, seed, b, case, budget_s=120.0)
            except BaseException:
                pass
        path = write_replay(pid, case, f, seed, os.path.join("out", "violations"))
        violations.append((os.path.relpath(path, VERIF), f))

    wall = time.monotonic() - t0
    rule = getattr(mod, "RULE", "")
    floors = getattr(mod, "FLOORS", {})
    floors_report = {}
    for feat, frac in floors.items():
        got = features.get(feat, 0) / cases if cases else 0.0
        floors_report[feat] = {"floor": frac, "measured": round(got, 4), "ok": got >= frac}
    coverage = {
        "evaluations": evaluations,
        "distinct_nontrivial": len(nontrivial),
        "rule": rule,
        "samples": samples[:5],
        "cases_generated": cases,
        "pinned_replays_run": pinned,
        "feature_histogram": dict(sorted(features.items())),
        "counters": dict(sorted(extra.items())),
        "excluded_by_known_finding": dict(excluded),
        "known_findings_reproduced": kf_reproduced,
        "known_findings_not_reproduced": kf_not_reproduced,
        "inconclusive": inconclusive,
        "generator_rejected": rejected,
        "floors": floors_report,
        "exhaustive": bool(getattr(mod, "EXHAUSTIVE", False)),
        "exhaustive_subdomain": getattr(mod, "EXHAUSTIVE_SUBDOMAIN", ""),
        "violation_buckets": sorted(buckets),
        "repo": REPO,
    }
    ev = {
        "property_id": pid,
        "tier": tier,
        "seed": seed,
        "level": "exploration",
        "coverage": coverage,
        "assumptions": list(getattr(mod, "ASSUMPTIONS", [])),
        "wall_s": round(wall, 2),
        "violations": len(violations),
    }
    # evidence/ describes runs against /repo itself; a run against another tree (VERIF_REPO: sensitivity runs against
    # mutated scratch copies) writes its record to the git-ignored out/ directory instead
    alt = os.environ.get("VERIF_REPO")
    evdir = os.path.join(VERIF, "evidence") if not alt or os.path.realpath(alt) == os.path.realpath("/repo") \
        else os.path.join(VERIF, "out", "evidence_other_tree")
    os.makedirs(evdir, exist_ok=True)
    with open(os.path.join(evdir, f"{pid}.json"), "w") as fh:
        json.dump(ev, fh, indent=1, default=repr)
        fh.write("\n")

    print(
        f"{pid} {tier} seed={seed}: cases={cases} evaluations={evaluations} "
        f"distinct_nontrivial={len(nontrivial)} inconclusive={inconclusive} "
        f"rejected={rejected} excluded={sum(excluded.values())} wall={wall:.1f}s"
    )
    for line in known_lines:
        print(line)
    if harness_errors:
        for he in harness_errors[:3]:
            print("HARNESS-ERROR", str(he.get("error"))[-1800:].replace("\n", " | "))
            if he.get("case") is not None:
                os.makedirs(os.path.join(VERIF, "out"), exist_ok=True)
                with open(os.path.join(VERIF, "out", f"harness_error_{pid}.json"), "w") as fh:
                    json.dump({"property": pid, "case": he["case"], "error": he.get("error")}, fh, indent=1, default=repr)
        print(f"HARNESS-ERROR count={len(harness_errors)} (exit 2, no verdict)")
        return 2
    if cases and rejected / cases > 0.2:
        print(f"HARNESS-ERROR generator rejected {rejected}/{cases} cases")
        return 2
    if violations:
        for path, f in violations:
            print(
                f"  clause={f.get('clause')} sig={f.get('sig')} msg={str(f.get('msg'))[:500]}"
            )
            print(f"VIOLATION property={pid} replay={path}")
        return 1
    if evaluations < 1 or len(nontrivial) < 2:
        print("HARNESS-ERROR degenerate run: nothing non-trivial explored")
        return 2
    return 0


if __name__ == "__main__":
    try:
        rc = main()
    except SystemExit:
        raise
    except BaseException:
        traceback.print_exc()
        print("HARNESS-ERROR runner crashed")
        rc = 2
    sys.exit(rc)
