"""Run in a FRESH interpreter:  python fresh_import.py <project-dir> <package>
Imports the package and every module in it, checks pydantic completeness and __all__; prints one JSON line."""
import importlib
import json
import os
import sys
import traceback


def main():
    root, pkgname = sys.argv[1], sys.argv[2]
    sys.path.insert(0, root)
    out = {"modules": {}, "problems": []}
    try:
        pkg = importlib.import_module(pkgname)
    except BaseException as exc:  # noqa: BLE001
        out["problems"].append({"clause": "import", "sig": type(exc).__name__, "msg": f"import {pkgname}: {exc!r}"[:400],
                                "tb": traceback.format_exc()[-800:]})
        pkg = None
    pdir = os.path.join(root, pkgname)
    import pydantic

    for fn in sorted(os.listdir(pdir)):
        if not fn.endswith(".py") or fn == "__init__.py":
            continue
        name = f"{pkgname}.{fn[:-3]}"
        try:
            mod = importlib.import_module(name)
        except BaseException as exc:  # noqa: BLE001
            out["problems"].append({"clause": "import", "sig": type(exc).__name__, "msg": f"import {name}: {exc!r}"[:400]})
            continue
        n_models = 0
        for attr, obj in vars(mod).items():
            if isinstance(obj, type) and issubclass(obj, pydantic.BaseModel) and obj.__module__ == name:
                n_models += 1
                if not getattr(obj, "__pydantic_complete__", False):
                    try:
                        obj.model_rebuild(force=True)
                        done = obj.__pydantic_complete__
                        why = "model_rebuild() was needed after import"
                    except BaseException as exc:  # noqa: BLE001
                        done, why = False, repr(exc)[:200]
                    # a model that pydantic completes lazily on first use (all names resolvable) works;
                    # only an unresolvable reference is a violation, the lazy ones are counted
                    if done:
                        out.setdefault("lazy_models", []).append(f"{name}.{attr}")
                    else:
                        out["problems"].append({"clause": "incomplete_model", "sig": "unresolvable",
                                                "msg": f"{name}.{attr} cannot be fully built after import ({why})"})
        out["modules"][name] = n_models
    if pkg is not None:
        all_ = getattr(pkg, "__all__", None)
        if all_ is None:
            out["all"] = None
        else:
            out["all"] = list(all_)
            missing = [n for n in all_ if not hasattr(pkg, n)]
            if missing:
                out["problems"].append({"clause": "all_missing", "sig": "missing", "msg": f"names in __all__ without attribute: {missing}"})
            if len(set(all_)) != len(all_):
                out["problems"].append({"clause": "all_duplicates", "sig": "dup", "msg": f"duplicates in __all__: {sorted(n for n in set(all_) if list(all_).count(n) > 1)}"})
    print(json.dumps(out))


if __name__ == "__main__":
    main()
