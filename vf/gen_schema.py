"""Constructive generator of valid GraphQL schemas (SDL text + structured description).

Everything is type directed: nothing is filtered, the final `build_schema` +
`assert_valid_schema` (done by the caller) only guards soundness.
"""
import keyword
import re

import pydantic

# ------------------------------------------------------------------ name pools

PLAIN_FIELDS = [
    "id", "name", "value", "count", "title", "fooBar", "barBaz", "someURL", "HTTPCode",
    "a1", "x2y", "snake_case", "with_2_num", "UPPER", "mixedCase_snake", "b", "aB", "a",
    "items", "node", "edges", "total", "createdAt", "isOk", "kind", "data", "query",
    "self", "kwargs", "response", "variables",
]
# names that shadow names the generated modules themselves use
SHADOW_FIELDS = ["Field", "Optional", "List", "str", "int", "Any", "Union", "BaseModel", "Literal", "float", "bool"]
KEYWORD_FIELDS = [k for k in keyword.kwlist]  # all hard keywords are valid GraphQL names
SOFT_KEYWORD_FIELDS = ["match", "case", "type"]
PYDANTIC_FIELDS = sorted(
    n for n in dir(pydantic.BaseModel) if not n.startswith("_")
)
LEADING_US_FIELDS = ["_id", "_private", "_x", "_fooBar"]
TRAILING_US_FIELDS = ["id_", "from_", "x_"]
CAMEL_RESERVED = ["modelDump", "modelFields", "modelConfig", "Copy", "Json"]

TYPE_NAMES = [
    "Alpha", "Beta", "Gamma", "Delta", "Epsilon", "Zeta", "Eta", "Theta", "Iota", "Kappa",
    "Lambda", "Mu", "Nu", "Xi", "Omicron", "Rho", "Sigma", "Tau", "Upsilon", "Phi", "Chi",
    "Psi", "Omega", "HTTPThing", "Node2", "User", "Post", "Item", "Thing",
]
ENUM_VALUES_PLAIN = ["RED", "GREEN", "BLUE", "lower", "camelValue", "With_Underscore", "A1", "X",
                     "type", "match", "case"]  # soft keywords are ordinary identifiers
ENUM_VALUES_KEYWORD = ["from", "None", "True", "class", "import", "in", "is", "pass"]
ENUM_VALUES_RESERVED = ["mro", "name", "value", "_x_", "_generate_next_value_", "_missing_"]

BUILTIN_SCALARS = ["Int", "Float", "String", "Boolean", "ID"]

WRAPPERS_OUT = [
    "{}", "{}!", "[{}]", "[{}]!", "[{}!]", "[{}!]!", "[[{}]]", "[[{}!]!]!", "[[{}!]]", "[[{}]!]",
]
WRAPPERS_IN = ["{}", "{}!", "[{}]", "[{}]!", "[{}!]", "[{}!]!", "[[{}]]", "[[{}!]!]!", "[[{}!]]"]


def canon(name):
    """Conservative collision key: two names with the same key are never put in one scope
    (collisions are the subject of C18 only)."""
    return re.sub(r"[^a-z0-9]", "", name.lower())


def parse_type(s):
    s = s.strip()
    if s.endswith("!"):
        return ("nn", parse_type(s[:-1]))
    if s.startswith("["):
        return ("list", parse_type(s[1:-1]))
    return ("named", s)


def named_of(s):
    return re.sub(r"[\[\]!]", "", s)


def pick_names(d, k, used, pools):
    """k names with pairwise distinct canonical keys, none in `used` (a set of keys)."""
    out = []
    tries = 0
    while len(out) < k and tries < 8 * k + 8:
        tries += 1
        pool = d.weighted(pools)
        n = d.choice(pool)
        c = canon(n)
        if not c or c in used:
            continue
        used.add(c)
        out.append(n)
    return out


def field_name_pools(d, rich=True):
    pools = [(10, PLAIN_FIELDS)]
    if rich == "shadow" and d.enabled("names.field_shadows_module_name", 0.3):
        pools.append((2, SHADOW_FIELDS))
    if rich:
        pools += [
            (2, KEYWORD_FIELDS),
            (1, SOFT_KEYWORD_FIELDS),
            (2, PYDANTIC_FIELDS),
            (1, LEADING_US_FIELDS),
            (1, TRAILING_US_FIELDS),
            (1, CAMEL_RESERVED),
        ]
    return pools


# ------------------------------------------------------------------ literals

STRING_CLASSES = {
    "alnum": ["abc", "Hello", "x1"],
    "empty": [""],
    "space": [" lead", "trail ", "two  spaces"],
    "dquote": ['say "hi"', '"'],
    "backslash": ["a\\b", "c:\\dir\\", "\\\\"],
    "tab": ["a\tb"],
    "unicode": ["zażółć", "日本語", "😀 astral"],
    "hash": ["# not a comment", "a#b"],
    "equals": ["a=b", "x = y", "k=v=w"],
    "braces": ["{a}", "}{", "[1,2]"],
    "single_quote": ["it's", "'", "''"],
    "newline_escape": ["line1\nline2"],
    "long": ["x" * 100 + " " + "y" * 40],
    "percent": ["100%s", "%(a)s {0}"],
    "triple": ['a"""b'],
}


def gql_string(s):
    out = ['"']
    for ch in s:
        if ch == '"':
            out.append('\\"')
        elif ch == "\\":
            out.append("\\\\")
        elif ch == "\n":
            out.append("\\n")
        elif ch == "\t":
            out.append("\\t")
        elif ord(ch) < 0x20:
            out.append("\\u%04x" % ord(ch))
        else:
            out.append(ch)
    out.append('"')
    return "".join(out)


def gen_string_value(d, prefix="oplit"):
    cls = d.weighted(
        [(6, "alnum"), (1, "empty"), (1, "space"), (2, "dquote"), (2, "backslash"), (1, "tab"),
         (2, "unicode"), (1, "hash"), (1, "equals"), (1, "braces"), (2, "single_quote"),
         (1, "newline_escape"), (1, "long"), (1, "percent"), (1, "triple")]
    )
    if cls in ("single_quote", "newline_escape") and not d.enabled(f"{prefix}.{cls}"):
        cls = "alnum"
    else:
        d.tag(f"{prefix}.{cls}")
    return d.choice(STRING_CLASSES[cls])


class SchemaDesc:
    def __init__(self):
        self.scalars = []
        self.enums = {}  # name -> [values]
        self.inputs = {}  # name -> [(fname, type_str, default_or_None)]
        self.interfaces = {}  # name -> {"implements": [], "fields": [OutField]}
        self.objects = {}
        self.unions = {}  # name -> [members]
        self.query = "Query"
        self.mutation = None
        self.subscription = None
        self.directives = []

    def to_json(self):
        return {k: v for k, v in self.__dict__.items() if k not in ("pending_inputs", "want_custom_operations")}


RISKY_KINDS = ("keyword_enum", "enum_in_object", "list_of_objects", "id_int", "list_coercion",
               "strcls.single_quote", "strcls.newline_escape")


def gen_literal(d, desc, type_str, ctx="default", risky=True):
    """(GraphQL literal text valid for the input type `type_str`, set of literal kinds).

    Kinds listed in RISKY_KINDS are only produced when the feature switch `<ctx>.<kind>` is
    enabled (i.e. no open known finding lives there); the steering is counted."""
    kinds = set()
    text = _lit(d, desc, parse_type(type_str), 0, ctx, True, kinds, risky, False)
    for k in kinds:
        d.tag(f"{ctx}.{k}")
    if text is None:
        text = None
    return text, kinds


def _lit(d, desc, t, depth, ctx, nullable, kinds, risky, in_obj):
    kind = t[0]
    if kind == "nn":
        return _lit(d, desc, t[1], depth, ctx, False, kinds, risky, in_obj)
    if nullable and d.bool(0.12):
        kinds.add("null")
        return "null"
    if kind == "list":
        if risky and d.bool(0.1) and d.enabled(f"{ctx}.list_coercion"):
            # GraphQL input coercion: a single value is accepted for a list
            kinds.add("list_coercion")
            return _lit(d, desc, t[1], depth + 1, ctx, False, kinds, risky, in_obj)
        n = d.weighted([(2, 1), (2, 2), (1, 0), (1, 3)])
        if depth >= 3:
            n = 0
        kinds.add("nested_list" if depth > 0 else "list")
        inner = t[1][1] if t[1][0] == "nn" else t[1]
        if n and inner[0] == "named" and inner[1] in desc.inputs:
            if not (risky and d.enabled(f"{ctx}.list_of_objects")):
                return "[]"
            kinds.add("list_of_objects")
        items = [_lit(d, desc, t[1], depth + 1, ctx, True, kinds, risky, in_obj) for _ in range(n)]
        return "[" + ", ".join(i for i in items if i is not None) + "]"
    name = t[1]
    if name == "Int":
        kinds.add("int")
        return str(d.choice([0, 1, -1, 42, 2147483647, -2147483648]))
    if name == "Float":
        kinds.add("float")
        return d.choice(["1.5", "-0.25", "0.0", "1e10", "1.5e300", "3", "-7"])
    if name == "Boolean":
        kinds.add("bool")
        return d.choice(["true", "false"])
    if name == "ID":
        if risky and d.bool(0.3) and d.enabled(f"{ctx}.id_int"):
            kinds.add("id_int")
            return str(d.choice([5, 0, 123]))
        kinds.add("id")
        return gql_string(d.choice(["id-1", "42", "abc"]))
    if name == "String":
        kinds.add("string")
        value = gen_string_value(d, prefix=ctx + "str")
        if d.bool(0.12) and not value.endswith('"') and d.enabled(f"{ctx}str.block_string"):
            return '"""' + value.replace('"""', '\\"""') + '"""'
        return gql_string(value)
    if name in desc.enums:
        vals = list(desc.enums[name])
        kw = [v for v in vals if keyword.iskeyword(v)]
        plain = [v for v in vals if not keyword.iskeyword(v)]
        v = d.choice(vals)
        soft = [x for x in vals if keyword.issoftkeyword(x)]
        if soft and d.bool(0.7):
            v = d.choice(soft)  # `match`, `case`, `type`: valid member names, so the default must name them unchanged
        if keyword.iskeyword(v):
            if risky and d.enabled(f"{ctx}.keyword_enum"):
                kinds.add("keyword_enum")
            elif plain:
                v = plain[0]
            else:
                return "null" if nullable else None
        if in_obj:
            if not (risky and d.enabled(f"{ctx}.enum_in_object")):
                return "null" if nullable else None
            kinds.add("enum_in_object")
        kinds.add("enum")
        if keyword.issoftkeyword(v):
            kinds.add("soft_keyword_enum")
        return v
    if name in desc.scalars:
        kinds.add("custom_scalar")
        return d.choice(['"sc"', "7", "true", '"2020-01-02T03:04:05"'])
    if name in desc.inputs:
        kinds.add("object_nested" if depth > 0 else "object")
        parts = []
        for fname, ftype, fdef in desc.inputs[name]:
            required = ftype.endswith("!") and fdef is None
            if required or (depth < 2 and d.bool(0.5)):
                sub = _lit(d, desc, parse_type(ftype), depth + 1, ctx, True, kinds, risky, True)
                if sub is None:
                    if required:
                        return "null" if nullable else None
                    continue
                parts.append(f"{fname}: {sub}")
        return "{" + ", ".join(parts) + "}"
    if name in getattr(desc, "pending_inputs", ()):
        return "null" if nullable else None  # forward reference to an input not generated yet
    raise AssertionError(f"not an input type: {name}")


# ------------------------------------------------------------------ schema


def gen_schema(d, *, max_types=8, rich_names=True, defaults=0.3, custom_scalars=True,
               mutation=True, subscription=False, input_heavy=False, descriptions=False,
               want_custom_operations=None, scalar_names=("DateTime", "JSONish", "Money"), n_scalars=(0, 2),
               scalar_weight=1, n_enums=None):
    desc = SchemaDesc()
    desc.want_custom_operations = want_custom_operations
    tnames = d.shuffle(TYPE_NAMES)

    def take():
        return tnames.pop()

    n_enum = d.int(*n_enums) if n_enums else (d.int(1, 3) if input_heavy else d.int(0, 2))
    n_scalar = d.int(*n_scalars) if custom_scalars else 0
    n_input = d.int(2, 4) if input_heavy else d.int(0, 2)
    n_iface = d.weighted([(2, 0), (3, 1), (4, 2), (2, 3)])
    n_obj = d.int(1, 4)
    n_union = d.int(0, 2)
    # hierarchy mode: a guaranteed interface chain with several implementations and a union over them, so that
    # every fragment / type-condition relation (same, sub-object, sub-interface, super, sibling) has positions
    hierarchy = d.bool(0.35)
    if hierarchy:
        n_iface, n_obj, n_union = max(n_iface, 2), max(n_obj, 3), max(n_union, 1)
        d.tag("schema.hierarchy_mode")

    # enums
    for _ in range(n_enum):
        name = take() + "Enum"
        if desc.enums and d.bool(0.3):
            # a name that CONTAINS another type's name (filters by substring / prefix would confuse them)
            name = d.choice(sorted(desc.enums)) + d.choice(["Ext", "V2", "Kind"])
            if name in desc.enums:
                name = take() + "Enum"
            else:
                d.tag("schema.name_contains_name")
        used = set()
        pools = [(8, ENUM_VALUES_PLAIN)]
        if rich_names:
            pools.append((2, ENUM_VALUES_KEYWORD))
        vals = pick_names(d, d.int(1, 4), used, pools)
        if rich_names and d.bool(0.15):
            v = d.choice(ENUM_VALUES_RESERVED)
            trig = "enumval.reserved_" + ("sunder" if v.startswith("_") else v)
            if canon(v) not in used and d.enabled(trig):
                vals.append(v)
        if any(keyword.iskeyword(v) for v in vals):
            d.tag("enumval.keyword")
        desc.enums[name] = vals or ["ONE"]
    # custom scalars
    for i in range(n_scalar):
        desc.scalars.append(scalar_names[i])

    in_leaf = BUILTIN_SCALARS + list(desc.enums) + desc.scalars * scalar_weight
    # inputs: names first (recursion / forward refs), then fields
    input_names = [take() + "Input" for _ in range(n_input)]
    if input_names and d.bool(0.12):
        input_names[0] = "_" + input_names[0]  # GraphQL reserves only "__": a single leading underscore is a user's name
        d.tag("schema.underscore_type_name")
    if len(input_names) >= 2 and d.bool(0.3):
        input_names[-1] = input_names[0] + d.choice(["Ext", "V2", "Patch"])
        d.tag("schema.name_contains_name")
    desc.pending_inputs = set(input_names)
    for idx, name in enumerate(input_names):
        used = set()
        fnames = pick_names(d, d.int(1, 5), used, field_name_pools(d, rich_names))
        fields = []
        for fn in fnames:
            # choose the named type
            if input_names and d.bool(0.35):
                target = d.choice(input_names)
                earlier = target in desc.inputs
                if target == name:
                    d.tag("input.self_recursive")
                elif not earlier:
                    d.tag("input.forward_ref")
                # nullable or list => no non-null cycle
                wrapper = d.choice(["{}", "[{}]", "[{}!]", "[{}!]!", "[{}]!"]) if not earlier \
                    else d.choice(WRAPPERS_IN)
                d.tag("input.nested")
            else:
                target = d.choice(in_leaf)
                wrapper = d.choice(WRAPPERS_IN)
            ftype = wrapper.format(target)
            fdef = None
            tn = named_of(ftype)
            if d.bool(defaults) and tn != name and (tn not in input_names or tn in desc.inputs):
                fdef, _kinds = gen_literal(d, desc, ftype, ctx="default")
            fields.append((fn, ftype, fdef))
        desc.inputs[name] = fields

    # output types: names first
    iface_names = [take() for _ in range(n_iface)]
    obj_names = [take() for _ in range(n_obj)]
    union_names = [take() + "Union" for _ in range(n_union)]
    out_leaf = BUILTIN_SCALARS + list(desc.enums) + desc.scalars * scalar_weight
    composite = iface_names + obj_names + union_names

    def gen_args():
        args = []
        if d.bool(0.35):
            used = set()
            for an in pick_names(d, d.int(1, 3), used, [(8, PLAIN_FIELDS), (1, KEYWORD_FIELDS)]):
                target = d.choice(in_leaf + list(desc.inputs))
                atype = d.choice(WRAPPERS_IN).format(target)
                adef = None
                if d.bool(0.2):
                    adef, _k = gen_literal(d, desc, atype, ctx="argdefault", risky=False)
                args.append((an, atype, adef))
        return args

    def gen_out_fields(used, kmin, kmax, own=None):
        fields = []
        for fn in pick_names(d, d.int(kmin, kmax), used, field_name_pools(d, rich_names)):
            if own is not None and d.bool(0.12):
                target = own  # a self-referential field (trees, linked lists)
                d.tag("schema.self_recursive_output")
            elif composite and d.bool(0.4):
                target = d.choice(composite)
            else:
                target = d.choice(out_leaf)
            ftype = d.choice(WRAPPERS_OUT).format(target)
            fields.append({"name": fn, "type": ftype, "args": gen_args()})
        return fields

    # interfaces (an interface may implement earlier interfaces)
    for i, name in enumerate(iface_names):
        impl = []
        used = set()
        fields = []
        if i > 0 and (d.bool(0.55) or (hierarchy and i == 1)):
            parent = iface_names[d.int(0, i - 1)]
            impl = [parent] + desc.interfaces[parent]["implements"]
            d.tag("schema.iface_implements_iface")
            for p in impl:
                for f in desc.interfaces[p]["fields"]:
                    if canon(f["name"]) not in used:
                        used.add(canon(f["name"]))
                        fields.append(f)
        fields += gen_out_fields(used, 1, 3, own=name)
        desc.interfaces[name] = {"implements": list(dict.fromkeys(impl)), "fields": fields}
    for name in obj_names:
        impl = []
        used = set()
        fields = []
        if iface_names and (d.bool(0.6) or hierarchy):
            chosen = d.sample(iface_names, d.int(1, min(2, len(iface_names))))
            if hierarchy and len(iface_names) >= 2 and len(desc.objects) < 2:
                chosen = [iface_names[1]]  # the first two objects implement the sub-interface (and through it the top)
            for c in chosen:
                for p in [c] + desc.interfaces[c]["implements"]:
                    if p not in impl:
                        impl.append(p)
            # copy interface fields; on conflicting keys with different definitions drop the iface
            ok_impl = []
            for p in impl:
                conflict = False
                for f in desc.interfaces[p]["fields"]:
                    same = [g for g in fields if canon(g["name"]) == canon(f["name"])]
                    if same and same[0] != f:
                        conflict = True
                if not conflict:
                    ok_impl.append(p)
                    for f in desc.interfaces[p]["fields"]:
                        if canon(f["name"]) not in used:
                            used.add(canon(f["name"]))
                            fields.append(f)
            # keep transitive closure consistent: an iface is kept only if all its parents are
            impl = [p for p in ok_impl if all(q in ok_impl for q in desc.interfaces[p]["implements"])]
            keep = set()
            for p in impl:
                keep.update(canon(f["name"]) for f in desc.interfaces[p]["fields"])
            fields = [f for f in fields if canon(f["name"]) in keep]
            used = {canon(f["name"]) for f in fields}
            if len(impl) > 1:
                d.tag("schema.object_multi_iface")
            # covariance: an implementing object may narrow the type of an interface field (T -> T!, [T] -> [T!])
            narrowed = []
            for f in fields:
                if d.bool(0.2):
                    t = f["type"]
                    opts = []
                    if not t.endswith("!"):
                        opts.append(t + "!")
                    inner = re.sub(r"([A-Za-z0-9_]+)(\])", r"\1!\2", t, count=1)
                    if inner != t and "!]" not in t[: t.find("]") + 1]:
                        opts.append(inner)
                    if opts:
                        f = dict(f, type=d.choice(opts))
                        d.tag("schema.covariant_field")
                narrowed.append(f)
            fields = narrowed
        fields += gen_out_fields(used, 1, 4, own=name)
        desc.objects[name] = {"implements": impl, "fields": fields}
    # every interface needs at least one implementation for interesting responses
    for iname in iface_names:
        if not any(iname in o["implements"] for o in desc.objects.values()):
            # add a dedicated implementing object
            oname = take()
            impl = [iname] + desc.interfaces[iname]["implements"]
            fields = []
            used = set()
            for p in impl:
                for f in desc.interfaces[p]["fields"]:
                    if canon(f["name"]) not in used:
                        used.add(canon(f["name"]))
                        fields.append(f)
            fields += gen_out_fields(used, 0, 2)
            desc.objects[oname] = {"implements": impl, "fields": fields}
            obj_names.append(oname)
    for name in union_names:
        desc.unions[name] = d.sample(obj_names, d.int(1, min(3, len(obj_names))))

    # roots
    def root_fields(kmin, kmax, force_all):
        used = set()
        fields = []
        if force_all:
            for t in composite + [x for x in obj_names if x not in composite]:
                for fn in pick_names(d, 1, used, [(1, PLAIN_FIELDS)]):
                    fields.append({"name": fn, "type": d.choice(WRAPPERS_OUT).format(t), "args": gen_args()})
        fields += gen_out_fields(used, kmin, kmax)
        return fields

    if d.bool(0.15):
        desc.query = "RootQ"
        d.tag("schema.custom_root_name")
    desc.objects[desc.query] = {"implements": [], "fields": root_fields(1, 3, True)}
    if mutation and d.bool(0.5):
        desc.mutation = "Mutation" if desc.query == "Query" else "RootM"
        desc.objects[desc.mutation] = {"implements": [], "fields": root_fields(1, 3, False)}
        # mutations want arguments
        for f in desc.objects[desc.mutation]["fields"]:
            if not f["args"] and desc.inputs:
                iname = d.choice(list(desc.inputs))
                f["args"] = [("input", d.choice(["{}", "{}!", "[{}!]"]).format(iname), None)]
    if subscription:
        desc.subscription = "Subscription" if desc.query == "Query" else "RootS"
        desc.objects[desc.subscription] = {"implements": [], "fields": root_fields(1, 2, False)}
        # subscriptions want filters: an input-object argument (its variables travel in the subscribe message, a code
        # path of its own in the base clients)
        for f in desc.objects[desc.subscription]["fields"]:
            if desc.inputs and not any(a[1].strip("[]!") in desc.inputs for a in f["args"]) and d.bool(0.6):
                iname = d.choice(list(desc.inputs))
                taken = {a[0] for a in f["args"]}
                aname = next((n for n in ("filter", "where", "input", "filterBy") if n not in taken), None)
                if aname:
                    f["args"] = list(f["args"]) + [(aname, d.choice(["{}", "{}!", "[{}!]"]).format(iname), None)]
                    d.tag("schema.subscription_input_arg")
    return desc


def render_sdl(desc, descriptions=None):
    out = []
    roots = []
    if desc.query != "Query" or (desc.mutation and desc.mutation != "Mutation") or (
        desc.subscription and desc.subscription != "Subscription"
    ):
        roots.append(f"query: {desc.query}")
        if desc.mutation:
            roots.append(f"mutation: {desc.mutation}")
        if desc.subscription:
            roots.append(f"subscription: {desc.subscription}")
        out.append("schema { " + " ".join(roots) + " }")
    for s in desc.scalars:
        out.append(f"scalar {s}")
    for name, vals in desc.enums.items():
        out.append(f"enum {name} {{ " + " ".join(vals) + " }")
    for name, fields in desc.inputs.items():
        lines = []
        for fn, ft, fd in fields:
            lines.append(f"  {fn}: {ft}" + (f" = {fd}" if fd is not None else ""))
        out.append(f"input {name} {{\n" + "\n".join(lines) + "\n}")

    def render_fields(fields):
        lines = []
        for f in fields:
            args = ""
            if f["args"]:
                args = "(" + ", ".join(
                    f"{an}: {at}" + (f" = {ad}" if ad is not None else "") for an, at, ad in f["args"]
                ) + ")"
            lines.append(f"  {f['name']}{args}: {f['type']}")
        return "\n".join(lines)

    for name, it in desc.interfaces.items():
        impl = (" implements " + " & ".join(it["implements"])) if it["implements"] else ""
        out.append(f"interface {name}{impl} {{\n{render_fields(it['fields'])}\n}}")
    for name, ot in desc.objects.items():
        impl = (" implements " + " & ".join(ot["implements"])) if ot["implements"] else ""
        out.append(f"type {name}{impl} {{\n{render_fields(ot['fields'])}\n}}")
    for name, members in desc.unions.items():
        out.append(f"union {name} = " + " | ".join(members))
    return "\n\n".join(out) + "\n"


# ------------------------------------------------------------------ decorated SDL (C16, C19)

DESCRIPTIONS = [
    "plain description", 'with "double quotes"', "back\\slash and \\n literal", "unicode żółć 日本 😀",
    "multi\nline\ndescription", "  leading and trailing  ", "triple \"\"\" inside", "tab\there", "# hash", "'single'",
    "ends with quote\"", "",
    "markdown hard break  \nnext line", "trailing tab\t\nthen text", "first paragraph\n\nsecond paragraph after a blank line",
    "a single line that is longer than seventy characters so that the printer switches to a block string  x",
]


def gql_description(d, text):
    if "\n" in text or d.bool(0.3):
        body = text.replace('"""', '\\"""')
        if body.endswith('"') or body.endswith("\\"):
            body += " "
        return '"""\n' + body + '\n"""'
    return gql_string(text)


def render_sdl_rich(d, desc, *, deprecations=True, directives=True, descriptions=True, extend=True, empty_descriptions_ok=False,
                    printed_target=True, schema_block_p=0.3):
    """SDL with descriptions, deprecations, custom directives, specifiedBy, schema description, extend type."""
    out = []

    def descr(indent=""):
        if descriptions and d.bool(0.3):
            text = d.choice(DESCRIPTIONS)
            if text == "" and not empty_descriptions_ok and not d.enabled("sdl.empty_description"):
                text = "plain description"
            d.tag("sdl.description")
            if "\n" in text:
                d.tag("sdl.description_multiline")
            return indent + gql_description(d, text).replace("\n", "\n" + indent) + "\n"
        return ""

    def depr(optional=True):
        if deprecations and optional and d.bool(0.15):
            d.tag("sdl.deprecated")
            if d.bool(0.5):
                return " @deprecated"
            return " @deprecated(reason: %s)" % gql_string(d.choice(["use other", 'say "no"', "żółć", "back\\slash", ""]))
        return ""

    custom_root = desc.query != "Query" or (desc.mutation and desc.mutation != "Mutation") or (
        desc.subscription and desc.subscription != "Subscription")
    if custom_root or (descriptions and d.bool(schema_block_p)):
        roots = [f"query: {desc.query}"]
        if desc.mutation:
            roots.append(f"mutation: {desc.mutation}")
        if desc.subscription:
            roots.append(f"subscription: {desc.subscription}")
        sd = ""
        if descriptions and d.bool(0.5):
            sd = gql_description(d, d.choice(["schema description", "multi\nline schema"])) + "\n"
            d.tag("sdl.schema_description")
        if extend and len(roots) >= 2 and d.bool(0.5):
            # root operation types added by a schema extension (modular SDL layouts)
            out.append(sd + "schema { " + roots[0] + " }")
            out.append("extend schema { " + " ".join(roots[1:]) + " }")
            d.tag("sdl.extend_schema")
        else:
            out.append(sd + "schema { " + " ".join(roots) + " }")
    if directives:
        locs_t = ["FIELD_DEFINITION", "OBJECT", "INTERFACE", "UNION", "ENUM", "ENUM_VALUE", "INPUT_OBJECT",
                  "INPUT_FIELD_DEFINITION", "ARGUMENT_DEFINITION", "SCALAR", "SCHEMA"]
        locs_e = ["QUERY", "MUTATION", "FIELD", "FRAGMENT_DEFINITION", "FRAGMENT_SPREAD", "INLINE_FRAGMENT", "VARIABLE_DEFINITION"]
        for i in range(d.int(0, 2)):
            name = ["tag", "auth", "cost"][i]
            locs = d.sample(locs_t + locs_e, d.int(1, 4))
            args = []
            in_leaf = BUILTIN_SCALARS + list(desc.enums) + desc.scalars + list(desc.inputs)
            for an in pick_names(d, d.int(0, 3), set(), [(1, ["name", "weights", "mode", "cfg", "flag", "ids"])]):
                at = d.choice(WRAPPERS_IN).format(d.choice(in_leaf))
                ad = None
                if d.bool(0.6):
                    ad, _k = gen_literal(d, desc, at, ctx="dirdefault", risky=False)
                args.append(f"{descr()}{an}: {at}" + (f" = {ad}" if ad is not None else "") + depr(not at.endswith("!") or ad is not None))
            rep = " repeatable" if d.bool(0.4) else ""
            if rep:
                d.tag("sdl.repeatable_directive")
            out.append(f"{descr()}directive @{name}" + ("(" + ", ".join(args) + ")" if args else "") + rep + " on " + " | ".join(locs))
            d.tag("sdl.custom_directive")
    if directives and d.bool(0.15) and (not printed_target or d.enabled("sdl.redefined_specified_directive")):
        # (KF-C16-3: the printed .graphql / .gql target cannot carry it - print_schema omits specified directives)
        # an SDL that spells out its own definition of a specified directive (server dumps do): other description,
        # other default - the schema's directive is then NOT graphql-core's stock object
        out.append(d.choice([
            '"""own wording"""\ndirective @deprecated(reason: String = "gone") on FIELD_DEFINITION | ARGUMENT_DEFINITION | INPUT_FIELD_DEFINITION | ENUM_VALUE',
            '"""skip, as this server documents it"""\ndirective @skip("""the condition""" if: Boolean!) on FIELD | FRAGMENT_SPREAD | INLINE_FRAGMENT',
            'directive @include(if: Boolean!) on FIELD | FRAGMENT_SPREAD | INLINE_FRAGMENT',
            '"""where the scalar is specified"""\ndirective @specifiedBy(url: String!) on SCALAR',
        ]))
        d.tag("sdl.redefined_specified_directive")
    for s in desc.scalars:
        sb = ""
        if d.bool(0.4):
            sb = ' @specifiedBy(url: "https://example.com/%s")' % s.lower()
            d.tag("sdl.specified_by")
        out.append(f"{descr()}scalar {s}{sb}")
    for name, vals in desc.enums.items():
        body = "\n".join(f"{descr('  ')}  {v}{depr()}" for v in vals)
        out.append(f"{descr()}enum {name} {{\n{body}\n}}")
    for name, fields in desc.inputs.items():
        lines = []
        for fn, ft, fd in fields:
            lines.append(f"{descr('  ')}  {fn}: {ft}" + (f" = {fd}" if fd is not None else "") + depr(not ft.endswith("!") or fd is not None))
        out.append(f"{descr()}input {name} {{\n" + "\n".join(lines) + "\n}")

    def render_fields(fields):
        lines = []
        for f in fields:
            args = ""
            if f["args"]:
                args = "(" + ", ".join(
                    f"{an}: {at}" + (f" = {ad}" if ad is not None else "") + depr(not at.endswith("!") or ad is not None)
                    for an, at, ad in f["args"]) + ")"
            lines.append(f"{descr('  ')}  {f['name']}{args}: {f['type']}{depr()}")
        return "\n".join(lines)

    for name, it in desc.interfaces.items():
        impl = (" implements " + " & ".join(it["implements"])) if it["implements"] else ""
        out.append(f"{descr()}interface {name}{impl} {{\n{render_fields(it['fields'])}\n}}")
    extensions = []
    for name, ot in desc.objects.items():
        impl = (" implements " + " & ".join(ot["implements"])) if ot["implements"] else ""
        fields = ot["fields"]
        if extend and len(fields) >= 2 and not ot["implements"] and d.bool(0.25):
            extensions.append(f"extend type {name} {{\n{render_fields(fields[-1:])}\n}}")
            fields = fields[:-1]
            d.tag("sdl.extend_type")
        out.append(f"{descr()}type {name}{impl} {{\n{render_fields(fields)}\n}}")
    for name, members in desc.unions.items():
        out.append(f"{descr()}union {name} = " + " | ".join(members))
    return "\n\n".join(out + extensions) + "\n"
