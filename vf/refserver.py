"""Reference GraphQL server built on graphql-core: "a spec-conformant server".

Executes the *received* document against the user's schema with a type-directed resolver
whose choices (null at nullable positions, list lengths, runtime type at abstract positions,
leaf values) come from a PRNG seeded by the case, so a case is a pure function of its seed.
Resolvers never return null for non-null types: the result is error-free data.
"""
import random

from graphql import (
    GraphQLEnumType,
    GraphQLList,
    GraphQLNonNull,
    GraphQLScalarType,
    build_schema,
    execute,
    get_named_type,
    is_abstract_type,
    is_composite_type,
    parse,
    validate,
)
from graphql.execution.values import get_variable_values


class Obj:
    __slots__ = ("typename",)

    def __init__(self, typename):
        self.typename = typename


STRINGS = ["", "abc", 'q"uote', "zażółć 日本", "it's", "line1\nline2", "back\\slash", "😀",
           " padded ", "trailing tab\t", "\nleading newline", "   "]  # values are data: surrounding whitespace included


class RefServer:
    def __init__(self, sdl, seed=0, null_p=0.2, unique_scalars=None, scalar_values=None):
        self.schema = build_schema(sdl)
        self.rng = random.Random(seed)
        self.null_p = null_p
        self.calls = []  # one record per handled request
        self.unique_scalars = unique_scalars  # names of custom scalars whose every occurrence gets a unique raw
        self._uniq = 0
        self.scalar_values = scalar_values or {}

    # -------------------------------------------------------------- values
    def leaf(self, t):
        r = self.rng
        if isinstance(t, GraphQLEnumType):
            return r.choice(list(t.values))
        n = t.name
        if n == "Int":
            return r.choice([0, 1, -7, 42, 2147483647])
        if n == "Float":
            return r.choice([0.5, -1.25, 3.0, 1e10, 0.0])
        if n == "String":
            return r.choice(STRINGS)
        if n == "ID":
            return r.choice(["1", "abc", "id-9", " 42", "7 "])
        if n == "Boolean":
            return r.choice([True, False])
        if n in self.scalar_values:
            return r.choice(self.scalar_values[n])
        if self.unique_scalars and n in self.unique_scalars:
            self._uniq += 1
            return f"{n}#{self._uniq}"
        return r.choice(["sc", 7, True, {"k": [1, "two"]}, [1, 2], 1.5, "2020-01-02T03:04:05"])

    def make(self, t, path, rec):
        if isinstance(t, GraphQLNonNull):
            return self._make_nn(t.of_type, path, rec)
        if self.rng.random() < self.null_p:
            rec["nulls"] += 1
            return None
        return self._make_nn(t, path, rec)

    def _make_nn(self, t, path, rec):
        if isinstance(t, GraphQLList):
            n = self.rng.choice([0, 1, 2, 3])
            if rec["objects"] > 120 or len(path) > 9:
                n = min(n, 1)  # keep responses of deeply nested / recursive selections bounded
            rec["list_lengths"].add(min(n, 2))
            return [self.make(t.of_type, path + (i,), rec) for i in range(n)]
        if is_composite_type(t):
            if is_abstract_type(t):
                cands = sorted(x.name for x in self.schema.get_possible_types(t))
                name = self.rng.choice(cands)
                rec["abstract"] += 1
            else:
                name = t.name
            rec["rtypes"][path] = name
            rec["objects"] += 1
            return Obj(name)
        return self.leaf(t)

    # -------------------------------------------------------------- request
    def handle(self, body):
        """body: decoded JSON request.  Returns (response_json, record)."""
        rec = {
            "body": body, "nulls": 0, "objects": 0, "abstract": 0, "list_lengths": set(),
            "rtypes": {}, "ftypes": {}, "args": {}, "errors": None,
        }
        self.calls.append(rec)
        query = body.get("query")
        try:
            doc = parse(query)
        except Exception as exc:  # noqa: BLE001
            rec["errors"] = [f"syntax: {exc}"]
            return {"errors": [{"message": str(exc)}]}, rec
        errs = validate(self.schema, doc)
        if errs:
            rec["errors"] = ["validation: " + e.message for e in errs]
            return {"errors": [{"message": e.message} for e in errs]}, rec
        rec["doc"] = doc

        def resolver(source, info, **args):
            path = tuple(info.path.as_list())
            rec["ftypes"][path] = str(info.return_type)
            if args:
                rec["args"][path] = args
            return self.make(info.return_type, path, rec)

        def type_resolver(value, info, abstract_type):
            return value.typename

        result = execute(
            self.schema, doc, variable_values=body.get("variables") or {},
            operation_name=body.get("operationName"), field_resolver=resolver,
            type_resolver=type_resolver,
        )
        if result.errors:
            rec["errors"] = ["execution: " + e.message for e in result.errors]
            return {"data": result.data, "errors": [{"message": e.message} for e in result.errors]}, rec
        rec["data"] = result.data
        return {"data": result.data}, rec
