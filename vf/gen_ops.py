"""Type-directed generator of valid operations / fragments for a generated schema."""
import keyword

from graphql import (
    GraphQLEnumType,
    GraphQLInputObjectType,
    GraphQLInterfaceType,
    GraphQLList,
    GraphQLNonNull,
    GraphQLObjectType,
    GraphQLScalarType,
    GraphQLUnionType,
    get_named_type,
    is_abstract_type,
    is_composite_type,
    is_leaf_type,
)

from vf.gen_schema import (
    KEYWORD_FIELDS,
    PLAIN_FIELDS,
    PYDANTIC_FIELDS,
    canon,
    gen_literal,
    gql_string,
    named_of,
    parse_type,
    pick_names,
)

ALIASES = ["first", "second", "other", "renamed", "aliasOne", "alias_two", "X", "y1", "from", "copy",
           "json", "_lead", "class", "Z9", "resultA", "res_b"]
VAR_NAMES_PLAIN = ["id", "first", "after", "inputData", "flag", "ids", "filterBy", "n", "limit", "where",
                   "someValue", "snake_var", "Upper", "v1", "x", "withDirective"]
# names of the generated method's own locals: the generator renames its local when a variable has the same Python
# name (documented behaviour, supported) ...
VAR_NAMES_LOCALS_SUPPORTED = ["query", "variables", "response", "data", "Query", "QUERY", "Variables", "Data", "Response"]
# ... but not these (KF-C04-3)
VAR_NAMES_LOCALS = ["self", "kwargs", "gql", "UNSET", "Upload", "_query", "_variables", "_response", "_data"]
OP_NAMES = ["GetAlpha", "listThings", "Op1", "fetch_all", "DoIt", "getHTTPStatus", "A", "myQuery2", "Search",
            "LoadX", "bigOne", "Qq", "R2D2", "runMe", "Test", "getUser", "viewerInfo"]
FRAG_NAMES = ["FragA", "alphaFields", "Common", "baseBits", "DetailsF", "fragX", "Shared", "NodeParts",
              "leafBits", "F1", "F2", "innerPart", "ExtraF"]
RESERVED_MODULES = {"client", "enums", "inputtypes", "fragments", "basemodel", "exceptions", "baseclient",
                    "asyncbaseclient", "baseoperation", "customfields", "customqueries", "custommutations",
                    "customtypingfields", "init", "operations", "scalars", "mixins"}


def possible(schema, t):
    if is_abstract_type(t):
        return set(x.name for x in schema.get_possible_types(t))
    return {t.name}


def relation(schema, parent, t):
    """How does type condition `t` relate to the enclosing composite type `parent`?  Declared
    relations (implements / union membership) decide sub/super; mere overlap of possible types
    is 'sibling'."""
    if parent.name == t.name:
        return "same"
    if not (possible(schema, parent) & possible(schema, t)):
        return None
    if is_abstract_type(parent) and schema.is_sub_type(parent, t):
        return "sub_iface" if is_abstract_type(t) else "sub_object"
    if is_abstract_type(t) and schema.is_sub_type(t, parent):
        return "super"
    return "sibling"


class OpGen:
    def __init__(self, d, schema, desc, *, max_depth=3, frag_p=0.5, directive_p=0.1, alias_p=0.25,
                 var_p=0.5, mixins=None, lit_ctx="oplit", local_var_names=False, root_frag_reroll_p=0.7, root_family_p=0.0, root_only_spreads_p=0.15,
                 enums_in_fragments_only_p=0.0):
        # document-level mode: operations select no enum leaves themselves, fragments prefer them - every enum of the
        # results is then reachable through fragments only
        self.enums_in_fragments_only = bool(enums_in_fragments_only_p) and d.bool(enums_in_fragments_only_p)
        if self.enums_in_fragments_only:
            d.tag("op.enums_in_fragments_only")
        self.d = d
        self.schema = schema
        self.desc = desc
        self.max_depth = max_depth
        self.frag_p = frag_p
        self.directive_p = directive_p
        self.alias_p = alias_p
        self.var_p = var_p
        self.mixins = mixins or []  # [(module, class)]
        self.lit_ctx = lit_ctx
        self.local_var_names = local_var_names
        self.root_frag_reroll_p = root_frag_reroll_p
        self.root_family_p = root_family_p
        self.root_only_spreads_p = root_only_spreads_p  # operation root selections that (almost) only spread fragments
        self.fragments = {}  # name -> {"type": str, "text": str, "keys": {canon: sig}, "deps": set, "inline": bool}
        self.frag_order = []
        self.frag_use = {}
        self.frag_mode_here = {}
        self._cur_narrow_spread = False
        self._cur_narrow_targets = set()
        self._cur_guarded = set()
        self._guard = None
        self.vars = None  # current operation's variable definitions
        self.var_keys = None
        self.composites = [
            t for n, t in schema.type_map.items() if is_composite_type(t) and not n.startswith("__")
        ]

    # ------------------------------------------------------------ arguments
    def _new_var(self, type_str, default_ok=True):
        d = self.d
        pools = [(10, VAR_NAMES_PLAIN), (1, KEYWORD_FIELDS), (1, PYDANTIC_FIELDS)]
        names = pick_names(d, 1, self.var_keys, pools)
        if self.local_var_names and d.bool(0.25):
            cand = d.choice(VAR_NAMES_LOCALS)
            if canon(cand) not in self.var_keys and d.enabled("names.var_is_method_local"):
                self.var_keys.add(canon(cand))
                names = [cand]
        if self.local_var_names and d.bool(0.3):
            cand = d.choice(VAR_NAMES_LOCALS_SUPPORTED)
            if canon(cand) not in self.var_keys:
                self.var_keys.add(canon(cand))
                names = [cand]
                d.tag("names.var_is_renamed_local")
        if not names:
            return None
        name = names[0]
        if keyword.iskeyword(name):
            d.tag("names.var_keyword")
        vtype = type_str
        if not vtype.endswith("!") and d.bool(0.2):
            vtype += "!"  # stricter variable type is allowed
        default = None
        if default_ok and d.bool(0.2):
            default, _k = gen_literal(d, self.desc, vtype, ctx="vardefault", risky=False)
            if default == "null" and vtype.endswith("!"):
                default = None
            d.tag("op.var_default")
        self.vars.append({"name": name, "type": vtype, "default": default})
        return name

    def _args(self, fdef):
        d = self.d
        parts = []
        for aname, arg in fdef.args.items():
            atype = str(arg.type)
            required = isinstance(arg.type, GraphQLNonNull) and arg.default_value is Undefined
            if not required and not d.bool(0.55):
                continue
            use_var = self.vars is not None and d.bool(self.var_p)
            if use_var:
                v = self._new_var(atype)
                if v is not None:
                    parts.append(f"{aname}: ${v}")
                    d.tag("op.variable")
                    continue
            lit, _k = gen_literal(d, self.desc, atype, ctx=self.lit_ctx, risky=False)
            if lit is None:
                if required:
                    return None
                continue
            if lit == "null" and required:
                return None
            parts.append(f"{aname}: {lit}")
            d.tag("op.literal_arg")
        return "(" + ", ".join(parts) + ")" if parts else ""

    def _directive(self):
        d = self.d
        if not d.bool(self.directive_p):
            return ""
        name = d.choice(["skip", "include"])
        if self.vars is not None and d.bool(0.5):
            v = self._new_var("Boolean!", default_ok=False)
            if v is not None:
                d.tag("op.directive_var")
                return f" @{name}(if: ${v})"
        d.tag("op.directive_literal")
        return f" @{name}(if: {d.choice(['true', 'false'])})"

    def _mixin_plan(self):
        """the order of the user's mixin classes has to be linearisable by Python (C3): a class lists the fragment
        classes it derives from first and its own @mixin classes after them, so two sites naming the same two mixin
        classes in opposite orders - directly, or through the fragments they spread - are the USER's contradiction
        ("Cannot create a consistent method resolution order ... MixinA, object, MixinB"), not the generator's.
        By construction: one order (first, second) per case; fragment definitions carry [first] or [first, second]
        (so every fragment class has first before second); fields - leaf classes nobody derives from - may carry any
        subset in any order, except that the REVERSED pair is only written in cases whose fragments never carry
        `second` (drawn once per case)."""
        if getattr(self, "_mplan", None) is None:
            d = self.d
            order = list(self.mixins)
            if len(order) >= 2 and d.bool(0.5):
                order[0], order[1] = order[1], order[0]
            self._mplan = {"order": order, "reverse_ok": d.bool(0.5)}
        return self._mplan

    def _mixin(self):
        d = self.d
        if self.mixins and d.bool(0.3):
            mod, cls = d.choice(self.mixins)
            d.tag("op.mixin_field")
            text = f' @mixin(from: ".{mod}", import: "{cls}")'
            others = [m for m in self.mixins if m != (mod, cls)]
            if others and d.bool(0.25):
                plan = self._mixin_plan()
                mod2, cls2 = d.choice(others)  # @mixin is repeatable: two classes on one field
                pair = [(mod, cls), (mod2, cls2)]
                if not plan["reverse_ok"]:
                    pair.sort(key=plan["order"].index)
                text = "".join(f' @mixin(from: ".{m}", import: "{c}")' for m, c in pair)
                d.tag("op.mixin_twice")
                if pair != sorted(pair, key=plan["order"].index):
                    d.tag("op.mixin_twice_reversed")
            return text
        return ""

    def _mark(self):
        return None if self.vars is None else (len(self.vars), set(self.var_keys))

    def _rollback(self, mark):
        if mark is not None:
            del self.vars[mark[0]:]
            self.var_keys.clear()
            self.var_keys.update(mark[1])

    # ------------------------------------------------------------ selections
    def selection_set(self, parent, depth, scope=None, in_fragment=None, inline_depth=0):
        """Returns text '{ ... }' for composite type `parent`. `scope` maps canonical response key
        -> signature for everything already selected at this level (inline fragments and spreads
        share the level's scope)."""
        d = self.d
        scope = {} if scope is None else scope
        items = []
        is_union = isinstance(parent, GraphQLUnionType)
        fields = {} if is_union else parent.fields
        if is_abstract_type(parent):
            d.tag("op.abstract_position")
        names = list(fields)
        k = d.int(1, 4) if names else 0
        if names and self.fragments and d.bool(self.root_only_spreads_p if depth == 0 and in_fragment is None else 0.15) and any(
                self.fragments[f]["type"] == parent.name for f in self.frag_order if f != in_fragment):
            k = d.int(0, 1)  # a selection set that (almost) only spreads fragments
        chosen = d.sample(names, k) if names else []
        if self.enums_in_fragments_only and names:
            is_enum = lambda n: isinstance(get_named_type(fields[n].type), GraphQLEnumType)  # noqa: E731
            if in_fragment is None:
                chosen = [n for n in chosen if not is_enum(n)]
            else:
                chosen += [n for n in names if is_enum(n) and n not in chosen][:2]
        if d.bool(0.12):
            chosen.append("__typename")
            d.tag("op.explicit_typename")
        for fname in chosen:
            if fname == "__typename":
                if "typename" in scope:
                    continue
                scope["typename"] = "__typename"
                if inline_depth == 0 and in_fragment is None and d.bool(0.3) and (
                        not is_union or d.enabled("sel.aliased_typename_with_narrowing")):
                    # (a union position always gets one class per member: KF-C04-8 like explicit narrowing)
                    free = [a for a in ALIASES if canon(a) not in scope and canon(a) != "typename"]
                    if free:
                        al = d.choice(free)
                        scope[canon(al)] = f"{al}: __typename"
                        items.append(f"{al}: __typename")
                        d.tag("op.aliased_typename")
                        if is_abstract_type(parent):
                            scope["__ta"] = True  # only aliased __typename at an abstract position
                        continue
                items.append("__typename")
                continue
            fdef = fields[fname]
            named = get_named_type(fdef.type)
            alias = None
            mark = self._mark()
            if d.bool(self.alias_p):
                alias = d.choice(ALIASES)
                d.tag("op.alias")
            key = alias or fname
            ck = canon(key)
            fam = getattr(self, "_family_keys", None)
            if fam is not None and depth == 1 and in_fragment is not None and ck in fam:
                # fragments of one same-type family get disjoint response keys, so that several of them can be
                # spread side by side
                free = [a for a in ALIASES + [f"{fname}{len(fam)}", f"k{len(fam)}"] if canon(a) not in fam and canon(a) not in scope]
                if not free:
                    continue
                alias = d.choice(free)
                key, ck = alias, canon(alias)
            if not ck or ck in scope or ck == "typename":
                continue
            if is_composite_type(named) and depth >= self.max_depth:
                continue
            if is_composite_type(named) and is_abstract_type(named) and in_fragment is not None:
                if not d.enabled("frag.abstract_field_inside"):
                    continue
            args = self._args(fdef)
            if args is None:
                self._rollback(mark)
                continue
            text = (f"{alias}: " if alias else "") + fname + args
            directive = self._directive()
            if directive and is_composite_type(named) and is_abstract_type(named) and isinstance(fdef.type, GraphQLNonNull) \
                    and not d.enabled("sel.directive_on_nonnull_abstract_field"):
                self._rollback(mark)
                continue
            if is_composite_type(named):
                sub = self.selection_set(named, depth + 1, None, in_fragment)
                if sub is None:
                    self._rollback(mark)
                    continue
                text += directive + self._mixin() + " " + sub
                if isinstance(get_nullable(fdef.type), GraphQLList):
                    d.tag("op.list_of_objects")
            else:
                text += directive
                if isinstance(named, GraphQLEnumType):
                    d.tag("op.enum_leaf")
                elif isinstance(named, GraphQLScalarType) and named.name in self.desc.scalars:
                    d.tag("op.custom_scalar_leaf")
            scope[ck] = text
            items.append(text)
        # the same leaf selected twice under one key, once conditionally and once not (KF-C05-2 lives here)
        leaves = [it for it in items if "{" not in it and "@" not in it and not it.endswith("__typename")]
        if leaves and inline_depth == 0 and d.bool(0.05) and d.enabled("sel.same_key_mixed_conditions"):
            twin = d.choice(leaves)
            cond = f"{twin} @include(if: true)"
            items.insert(items.index(twin) if d.bool(0.5) else len(items), cond)
        spread_here = scope.setdefault("__spreads", [])  # shared by the whole level (inline fragments included)
        narrowing = False  # a subtype-specific class is generated for this level
        same_spread = False
        # inline fragments
        if depth < self.max_depth + 1 and d.bool(0.7 if is_abstract_type(parent) else 0.12):
            targets = [t for t in self.composites if relation(self.schema, parent, t)]
            for t in d.sample(targets, d.int(1, min(3, len(targets)))):
                rel = relation(self.schema, parent, t)
                if isinstance(t, GraphQLUnionType):
                    continue
                pk = kind_of(parent)
                if not d.enabled(f"sel.inline_{rel}_{pk}"):
                    continue
                if inline_depth > 0 and not d.enabled("sel.nested_inline"):
                    continue
                if scope.get("__ta") and not d.enabled("sel.aliased_typename_with_narrowing"):
                    continue
                mark = self._mark()
                top_guard = in_fragment is not None and depth == 1 and inline_depth == 0 and self._guard is None
                if top_guard:
                    self._guard = t.name  # everything below is only reached for objects this condition applies to
                try:
                    sub = self.selection_set(t, depth + 1, scope, in_fragment, inline_depth + 1)
                finally:
                    if top_guard:
                        self._guard = None
                if sub is None:
                    self._rollback(mark)
                    continue
                dr = ""
                if d.bool(0.08) and d.enabled("sel.directive_on_inline"):
                    dr = self._directive()
                items.append(f"... on {t.name}{dr} {sub}")
                scope.setdefault("__inl", set()).add(t.name)
                if inline_depth == 0:
                    scope["__inl_direct"] = True
                d.tag("op.inline_fragment")
                if rel != "same":
                    narrowing = True
            if not is_union and d.bool(0.1) and d.enabled("sel.inline_no_typecond"):
                sub = self.selection_set(parent, depth + 1, scope, in_fragment, inline_depth + 1)
                if sub is not None:
                    items.append(f"... {sub}")
                    if inline_depth == 0:
                        scope["__inl_direct"] = True
        # spreads of already generated fragments
        direct_mixins = []  # fragments written at THIS level that become base classes
        applicable = [f for f in self.frag_order
                      if f != in_fragment and relation(self.schema, parent, self.schema.type_map[self.fragments[f]["type"]])]
        if applicable and d.bool(max(self.frag_p, 0.8) if in_fragment is not None else self.frag_p):
            chosen_frags = d.sample(applicable, d.int(1, 3 if len(applicable) < 4 else 4))
            if d.bool(0.4):
                # also try one dependency of a chosen fragment at the same level (fragment "triangle"), half of the time
                # one the fragment only uses in a nested field
                nested_only = d.bool(0.5)
                for f0 in list(chosen_frags):
                    deps0 = sorted(self.fragments[f0]["alldeps"] & set(applicable))
                    if nested_only:
                        deps0 = sorted((self.fragments[f0]["nested_direct"] - self.fragments[f0]["inh"]) & set(applicable)) or deps0
                    if deps0:
                        chosen_frags.append(d.choice(deps0))
                        break
            for fname in dict.fromkeys(chosen_frags):
                if fname == in_fragment:
                    continue
                fr = self.fragments[fname]
                if in_fragment is not None and (in_fragment in fr["alldeps"]):
                    continue
                t = self.schema.type_map[fr["type"]]
                rel = relation(self.schema, parent, t)
                if rel is None:
                    continue
                pk = kind_of(parent)
                if not d.enabled(f"sel.spread_{rel}_{pk}"):
                    continue
                # how the generator under test will use the fragment here: as a base class ("mixin") or
                # unpacked into the classes of this position; an unpacked fragment drags its dependencies
                mode = "mixin" if rel == "same" and not fr["inline"] else "unpacked"
                affected = [fname] + (sorted(fr["alldeps"]) if mode == "unpacked" else [])
                if any(self.frag_use.get(x, mode) != mode for x in affected) and not d.enabled("sel.spread_mixed_use"):
                    continue
                if inline_depth > 0 and rel != "same" and not d.enabled("sel.spread_inside_inline_narrowing"):
                    continue
                if inline_depth > 0 and fr["narrowing_deep"] and not d.enabled("sel.nested_inline"):
                    continue
                # KF-C01-7 lives where a fragment containing a narrowing spread is generated as a CLASS (used as
                # mixin): the narrowing spread may be written, the restriction is on how the outer fragment is used
                if mode == "mixin" and fr.get("narrowing_spread_deep") and not d.enabled("frag.narrowing_spread_inside"):
                    continue
                # KF-C01-6: an inner narrowing spread that applies to none of the classes of this position is dropped
                # but stays referenced; it is safe where this position is an object the inner fragment applies to
                if mode == "unpacked" and isinstance(parent, GraphQLObjectType) and fr.get("guards"):
                    ok = all(g == parent.name or (is_abstract_type(self.schema.type_map[g]) and self.schema.is_sub_type(self.schema.type_map[g], parent))
                             for g in fr["guards"])
                    if not ok and not d.enabled("sel.spread_inside_inline_narrowing"):
                        continue
                if mode == "unpacked" and fr.get("narrow_targets"):
                    safe = isinstance(parent, GraphQLObjectType) and all(
                        tn == parent.name or (is_abstract_type(self.schema.type_map[tn]) and self.schema.is_sub_type(self.schema.type_map[tn], parent))
                        for tn in fr["narrow_targets"])
                    if not safe and not d.enabled("sel.spread_inside_inline_narrowing"):
                        continue
                    if safe:
                        d.tag("op.unpacked_with_inner_mixin")
                # KF-C01-9 (inconsistent MRO) needs a base class listed BEFORE a class derived from it; bases are
                # listed in sorted fragment-name order
                def _bad_order(a, b):
                    # class derivation only: a fragment spread at the TOP level of another one as a base class; a mention
                    # in a nested field creates no base class
                    base, derived = (a, b) if a in self.fragments[b]["inh"] else ((b, a) if b in self.fragments[a]["inh"] else (None, None))
                    return base is not None and base < derived
                if mode == "mixin" and any(_bad_order(o, fname) for o in spread_here if self.frag_mode_here.get(o) == "mixin") \
                        and not d.enabled("sel.spread_redundant_dep"):
                    continue
                if mode == "mixin" and any(o in fr["alldeps"] or fname in self.fragments[o]["alldeps"] for o in spread_here):
                    d.tag("op.fragment_triangle")
                if mode == "mixin" and any(
                    (o in fr["alldeps"] and o not in fr["inh"]) or (fname in self.fragments[o]["alldeps"] and fname not in self.fragments[o]["inh"])
                    for o in spread_here if self.frag_mode_here.get(o) == "mixin"
                ):
                    d.tag("op.spread_with_nested_mention")
                if rel == "same" and is_abstract_type(parent) and fr["narrowing_deep"] and not fr["inline"] \
                        and not d.enabled("sel.spread_same_abs_with_narrowing"):
                    continue
                creates_narrowing = rel != "same" or fr["narrowing_deep"]
                if scope.get("__ta") and not d.enabled("sel.aliased_typename_with_narrowing"):
                    continue
                if is_abstract_type(parent) and (
                    (mode == "mixin" and narrowing) or (creates_narrowing and same_spread)
                ) and not d.enabled("sel.spread_same_abs_with_narrowing"):
                    continue
                # the generator under test treats inline fragments found through spreads as inline
                # fragments of this position
                if isinstance(parent, GraphQLInterfaceType):
                    ok = True
                    for tn in sorted(fr["keys"].get("__inl", ())):
                        r2 = relation(self.schema, parent, self.schema.type_map[tn]) or "sibling"
                        if r2 not in ("same", "sub_object") and not d.enabled(f"sel.inline_{r2}_iface"):
                            ok = False
                    if not ok:
                        continue
                fkeys = {k2: v2 for k2, v2 in fr["keys"].items() if not k2.startswith("__")}
                # response keys of the fragment must not clash with the scope
                if any(k2 in scope and scope[k2] != sig for k2, sig in fkeys.items()):
                    continue
                if any(k2 in scope for k2 in fkeys):
                    if not d.enabled("sel.merge_same_key"):
                        continue
                scope.update(fkeys)
                scope.setdefault("__inl", set()).update(fr["keys"].get("__inl", ()))
                for o in fr["keys"].get("__spreads", ()):
                    if o not in spread_here:
                        spread_here.append(o)
                for x in affected:
                    self.frag_use.setdefault(x, mode)
                spread_here.append(fname)
                self.frag_mode_here[fname] = mode
                if mode == "mixin":
                    direct_mixins.append(fname)
                if in_fragment is not None and rel != "same" and is_abstract_type(parent):
                    self._cur_narrow_spread = True
                    self._cur_narrow_targets.add(fr["type"])
                if in_fragment is not None and fr.get("narrowing_spread_deep"):
                    self._cur_narrow_spread = True
                    self._cur_narrow_targets.update(fr.get("narrow_targets", ()))
                if mode == "mixin":
                    same_spread = True
                if creates_narrowing:
                    narrowing = True
                dr = ""
                if d.bool(0.06) and d.enabled("sel.directive_on_spread"):
                    dr = self._directive()
                items.append(f"...{fname}{dr}")
                d.tag("op.fragment_spread")
                if fr["deps"]:
                    d.tag("op.nested_fragment")
                    if any(self.fragments[x]["deps"] for x in fr["deps"]):
                        d.tag("op.fragment_chain3")
                if in_fragment is not None:
                    self._cur_deps.add(fname)
                    if depth == 1 and inline_depth == 0 and mode == "mixin":
                        self._cur_inh.add(fname)
                        self._cur_inh.update(fr["inh"])
                    elif depth - inline_depth > 1:
                        self._cur_nested.add(fname)
                    if self._guard is not None:
                        self._cur_guarded.add(self._guard)
                    self._cur_guarded.update(fr.get("guards", ()))
                    if rel != "same":
                        self._cur_narrow = True
        if inline_depth == 0 and len(direct_mixins) >= 3 and any(
                a in self.fragments[b]["inh"] for a in direct_mixins for b in direct_mixins if a != b):
            d.tag("op.three_bases_with_derivation")  # class X(A, B, C) where one base derives from another
        if not items:
            if is_union or not names:
                if "typename" in scope:
                    return None
                scope["typename"] = "__typename"
                items.append("__typename")
            else:
                return None
        if len(items) >= 2 and d.bool(0.4):
            # fields, inline fragments and spreads interleaved in a drawn order (by default fragments come last)
            items = d.shuffle(items)
            d.tag("sel.interleaved_order")
        return "{ " + " ".join(items) + " }"

    # ------------------------------------------------------------ definitions
    def _recursive_types(self):
        roots = (self.desc.query, self.desc.mutation, self.desc.subscription)
        return [c for c in self.composites if c.name not in roots and hasattr(c, "fields")
                and any(get_named_type(f.type) is c for f in c.fields.values())]

    def gen_fragments(self, n):
        d = self.d
        names = pick_names(d, n, set(self._taken), [(1, FRAG_NAMES)])
        roots = (self.desc.query, self.desc.mutation, self.desc.subscription)
        types = []
        same_family = None
        abstract = [c for c in self.composites if is_abstract_type(c) and c.name not in roots]
        if len(names) >= 2 and self.root_family_p and d.bool(self.root_family_p):
            # fragments on the query root that can spread each other (result classes with base-class chains)
            for _ in range(d.int(2, min(3, len(names)))):
                types.append(self.schema.query_type)
            d.tag("frag.root_family")
        elif len(names) >= 3 and d.bool(0.3):
            # several fragments on ONE type: result classes with three or four fragment bases, some deriving from others
            objs = [c for c in self.composites if c.name not in roots and not is_abstract_type(c)] or \
                   [c for c in self.composites if c.name not in roots]
            if objs:
                t0 = d.choice(objs)
                for _ in range(d.int(3, min(4, len(names)))):
                    types.append(t0)
                same_family = (t0.name, len(types))
                d.tag("frag.same_type_family")
        elif len(names) >= 2 and self._recursive_types() and d.bool(0.35):
            # several fragments on one self-referential type: a later one can use an earlier one for the nested
            # occurrence of the type only, and both can be spread side by side
            t0 = d.choice(self._recursive_types())
            for _ in range(d.int(2, min(3, len(names)))):
                types.append(t0)
            d.tag("frag.recursive_family")
        elif abstract and len(names) >= 2 and d.bool(0.6):
            # family mode: fragments on member objects first, then on the abstract type (which can spread them),
            # the rest anywhere - fragment graphs need related types to be interesting
            fam = d.choice(abstract)
            members = sorted(self.schema.get_possible_types(fam), key=lambda x: x.name)
            k_obj = d.int(1, min(2, len(names) - 1))
            for _ in range(k_obj):
                types.append(d.choice(members))
            related_abs = [c for c in abstract if c.name != fam.name and relation(self.schema, fam, c) in ("super", "sub_iface")]
            for _ in range(d.int(1, min(2, len(names) - len(types)))):
                if related_abs and d.bool(0.4):
                    types.append(d.choice(related_abs))  # a super- / sub-interface of the family's abstract type
                else:
                    types.append(fam if d.bool(0.8) else d.choice(abstract))
            d.tag("frag.family_mode")
        while len(types) < len(names):
            t = d.choice(self.composites)
            if t.name in roots and d.bool(self.root_frag_reroll_p):
                t = d.choice(self.composites)
            types.append(t)
        family_keys = set()
        for idx, (name, t) in enumerate(zip(names, types)):
            in_family = same_family is not None and idx < same_family[1]
            self._family_keys = family_keys if in_family else None
            self._taken.add(canon(name))
            self._cur_deps = set()
            self._cur_inh = set()
            self._cur_nested = set()
            self._cur_narrow = False
            self._cur_narrow_spread = False
            self._cur_narrow_targets = set()
            self._cur_guarded = set()
            self._guard = None
            scope = {}
            self.vars = None  # fragments use literals only (variables would have to be declared by every user)
            sub = self.selection_set(t, 1, scope, in_fragment=name)
            self._family_keys = None
            if sub is None:
                continue
            alldeps = set(self._cur_deps)
            for dep in self._cur_deps:
                alldeps |= self.fragments[dep]["alldeps"]
            mixin = ""
            if self.mixins and d.bool(0.2):
                plan = self._mixin_plan()  # see there: fragment classes keep ONE order of the mixin classes
                own = plan["order"][:1]
                if len(plan["order"]) >= 2 and not plan["reverse_ok"] and d.bool(0.4):
                    own = plan["order"][:2]
                    d.tag("op.mixin_fragment_twice")
                mixin = "".join(f' @mixin(from: ".{mod}", import: "{cls}")' for mod, cls in own)
                d.tag("op.mixin_fragment")
            self.fragments[name] = {
                "type": t.name,
                "text": f"fragment {name} on {t.name}{mixin} {sub}",
                "keys": scope,
                "deps": set(self._cur_deps),
                "alldeps": alldeps,
                "nested_direct": set(self._cur_nested),  # fragments written inside a nested field of this one
                "inh": set(self._cur_inh),  # fragments whose classes this fragment's class derives from
                "inline": bool(scope.get("__inl_direct")),  # a top-level inline fragment: always unpacked
            }
            me = self.fragments[name]
            me["narrowing_spread_deep"] = self._cur_narrow_spread
            me["narrow_targets"] = set(self._cur_narrow_targets)
            me["guards"] = set(self._cur_guarded)  # type conditions under which (some of) its dependencies are reached
            me["narrowing_deep"] = me["inline"] or self._cur_narrow or any(
                self.fragments[x]["narrowing_deep"] for x in me["deps"]
            )
            if in_family:
                family_keys.update(k2 for k2 in scope if not k2.startswith("__"))
            self.frag_order.append(name)
            d.tag("frag.on_" + type(t).__name__.replace("GraphQL", "").replace("Type", "").lower())

    def gen_operation(self, name, kind):
        d = self.d
        root = {"query": self.schema.query_type, "mutation": self.schema.mutation_type,
                "subscription": self.schema.subscription_type}[kind]
        self.vars = []
        self.var_keys = set()
        self._cur_deps = set()
        if kind == "subscription":
            # single root field rule
            fname = d.choice(list(root.fields))
            fdef = root.fields[fname]
            args = self._args(fdef)
            if args is None:
                return None
            named = get_named_type(fdef.type)
            text = fname + args
            if is_composite_type(named):
                sub = self.selection_set(named, 1, None, None)
                if sub is None:
                    return None
                text += " " + sub
            body = "{ " + text + " }"
        else:
            body = self.selection_set(root, 0, None, None)
            if body is None:
                return None
        vdefs = ""
        if self.vars:
            vdefs = "(" + ", ".join(
                f"${v['name']}: {v['type']}" + (f" = {v['default']}" if v["default"] is not None else "")
                for v in self.vars
            ) + ")"
        return {"name": name, "kind": kind, "vars": list(self.vars), "text": f"{kind} {name}{vdefs} {body}"}

    def gen_document(self, n_ops=(1, 3), n_frags=(0, 4), kinds=("query", "mutation")):
        d = self.d
        self._taken = set(RESERVED_MODULES)
        self.gen_fragments(d.int(*n_frags))
        ops = []
        names = pick_names(d, d.int(*n_ops), self._taken, [(1, OP_NAMES)])
        for name in names:
            avail = [k for k in kinds if {"query": self.schema.query_type, "mutation": self.schema.mutation_type,
                                          "subscription": self.schema.subscription_type}[k] is not None]
            kind = d.choice(avail)
            op = self.gen_operation(name, kind)
            if op is not None:
                ops.append(op)
        defs = [o["text"] for o in ops] + [self.fragments[f]["text"] for f in self.frag_order]
        defs = d.shuffle(defs)
        return ops, "\n\n".join(defs) + "\n"


def kind_of(t):
    if isinstance(t, GraphQLUnionType):
        return "union"
    if isinstance(t, GraphQLInterfaceType):
        return "iface"
    return "obj"


def get_nullable(t):
    return t.of_type if isinstance(t, GraphQLNonNull) else t


from graphql import Undefined  # noqa: E402


# ------------------------------------------------------------------ argument values


def gen_value(d, desc, type_str, depth=0, ctx="arg"):
    """A schema-valid value *specification* for an input type: JSON with two markers,
    {"$e": [Enum, VALUE]} and {"$i": Type, "f": {gqlname: spec}, "by": "alias"|"name"}."""
    return _val(d, desc, parse_type(type_str), depth, ctx, True)


def named_of_t(t):
    while t[0] != "named":
        t = t[1]
    return t[1]


def _val(d, desc, t, depth, ctx, nullable):
    if t[0] == "nn":
        return _val(d, desc, t[1], depth, ctx, False)
    if nullable and d.bool(0.15):
        d.tag(f"{ctx}.none")
        return None
    if t[0] == "list":
        n = d.weighted([(2, 1), (2, 2), (1, 0), (1, 3)])
        if depth >= 3 and named_of_t(t) in desc.inputs:
            n = 0
        d.tag(f"{ctx}.list")
        return [_val(d, desc, t[1], depth + 1, ctx, True) for _ in range(n)]
    name = t[1]
    if name == "Int":
        return d.choice([0, 1, -5, 42, 2147483647])
    if name == "Float":
        return d.choice([0.5, -1.25, 3.0, 1e10, 2])
    if name == "Boolean":
        return d.bool(0.5)
    if name == "ID":
        return d.choice(["id1", "42", ""])
    if name == "String":
        return d.choice(["", "abc", 'q"uote', "uni-żó", "it's", "a\nb", "\\", " padded ", "tab\t"])
    if name in desc.enums:
        d.tag(f"{ctx}.enum")
        return {"$e": [name, d.choice(desc.enums[name])]}
    if name in desc.scalars:
        d.tag(f"{ctx}.custom_scalar")
        kind = getattr(desc, "scalar_kinds", {}).get(name)
        if kind == "money":
            if d.bool(0.15):
                d.tag(f"{ctx}.falsy_custom_scalar")
                return {"$money": 0}  # a FALSY value of the scalar's Python type (the empty string)
            desc.money_counter = getattr(desc, "money_counter", 0) + 1
            return {"$money": desc.money_counter}
        if kind == "str":
            return d.choice(["c1", "c2", ""])
        if kind == "datetime":
            return {"$dt": d.choice(["2020-01-02T03:04:05", "1999-12-31T23:59:59", "2024-02-29T00:00:00"])}
        return d.choice(["sc", 7, True, {"k": [1, 2]}, [1, "a"]])
    if name in desc.inputs:
        d.tag(f"{ctx}.input")
        if depth > 0:
            d.tag(f"{ctx}.input_nested")
        fields = {}
        for fname, ftype, fdef in desc.inputs[name]:
            required = ftype.endswith("!") and fdef is None
            if required or (depth < 3 and d.bool(0.5)):
                if not required and named_of(ftype) in desc.inputs and depth >= 2:
                    continue
                fields[fname] = _val(d, desc, parse_type(ftype), depth + 1, ctx, True)
            else:
                d.tag(f"{ctx}.unset_field")
        return {"$i": name, "f": fields, "by": d.choice(["alias", "name"])}
    raise AssertionError(name)


def gen_call_args(d, desc, op, omit_p=0.5):
    """{varname: spec} for one call; optional variables are omitted with probability omit_p."""
    args = {}
    for v in op["vars"]:
        optional = not v["type"].endswith("!")
        if optional and d.bool(omit_p):
            d.tag("arg.omitted")
            continue
        args[v["name"]] = gen_value(d, desc, v["type"])
    return args


def spec_to_json(spec):
    """The JSON the server must receive for a value specification."""
    if isinstance(spec, dict) and "$e" in spec:
        return spec["$e"][1]
    if isinstance(spec, dict) and "$money" in spec:
        return f"m#{spec['$money']}" if spec["$money"] else ""
    if isinstance(spec, dict) and "$dt" in spec:
        return spec["$dt"]
    if isinstance(spec, dict) and "$i" in spec:
        return {k: spec_to_json(v) for k, v in spec["f"].items()}
    if isinstance(spec, list):
        return [spec_to_json(x) for x in spec]
    return spec
