"""Base-client engine: the four bundled base clients driven directly (no code generation)."""
import asyncio
import contextlib
import importlib
import json

import httpx

DEPS = "ariadne_codegen.client_generators.dependencies"


def mod(name):
    return importlib.import_module(f"{DEPS}.{name}")


def exceptions():
    return mod("exceptions")


def base_model():
    return mod("base_model")


class FakeSpan:
    def __init__(self, tracer, name):
        self.tracer = tracer
        self.name = name
        self.attributes = {}

    def set_attribute(self, k, v):
        self.attributes[k] = v

    # opentelemetry's set_span_in_context only stores the object; be permissive
    def get_span_context(self):  # pragma: no cover
        from opentelemetry.trace import INVALID_SPAN_CONTEXT

        return INVALID_SPAN_CONTEXT

    def is_recording(self):
        return True


class FakeTracer:
    """Recording tracer with the two members the clients use."""

    def __init__(self):
        self.spans = []

    @contextlib.contextmanager
    def start_as_current_span(self, name, context=None, **kw):
        span = FakeSpan(self, name)
        self.spans.append(span)
        yield span


def tracer_of(kind):
    if kind == "none":
        return None
    if kind == "noop":
        from opentelemetry.trace import NoOpTracer

        return NoOpTracer()
    return FakeTracer()


# label, module, class, async?, tracer kind
VARIANTS = [
    ("async", "async_base_client", "AsyncBaseClient", True, None),
    ("sync", "base_client", "BaseClient", False, None),
    ("async_otel_none", "async_base_client_open_telemetry", "AsyncBaseClientOpenTelemetry", True, "none"),
    ("async_otel_noop", "async_base_client_open_telemetry", "AsyncBaseClientOpenTelemetry", True, "noop"),
    ("async_otel_rec", "async_base_client_open_telemetry", "AsyncBaseClientOpenTelemetry", True, "rec"),
    ("sync_otel_none", "base_client_open_telemetry", "BaseClientOpenTelemetry", False, "none"),
    ("sync_otel_noop", "base_client_open_telemetry", "BaseClientOpenTelemetry", False, "noop"),
    ("sync_otel_rec", "base_client_open_telemetry", "BaseClientOpenTelemetry", False, "rec"),
]


def make(variant, handler, **kwargs):
    label, module, cls_name, is_async, tracer = variant
    cls = getattr(mod(module), cls_name)
    transport = httpx.MockTransport(handler)
    http = httpx.AsyncClient(transport=transport) if is_async else httpx.Client(transport=transport)
    if tracer is not None:
        kwargs["tracer"] = tracer_of(tracer)
    return cls(url="http://verif.test/graphql", http_client=http, **kwargs)


def run(coro_or_value):
    if asyncio.iscoroutine(coro_or_value):
        return asyncio.run(coro_or_value)
    return coro_or_value


def execute(client, variant, query, operation_name, variables, kwargs):
    """client.execute(...) for sync and async clients: returns (response, exception)."""
    try:
        return run(client.execute(query, operation_name=operation_name, variables=variables, **kwargs)), None
    except BaseException as exc:  # noqa: BLE001
        return None, exc


def response(status, content, headers=None):
    return httpx.Response(status, content=content, headers=headers or {},
                          request=httpx.Request("POST", "http://verif.test/graphql"))
